#!/usr/bin/env python3
"""Regenerates MANIFEST.json from the table below (kept next to DESIGN.md so the two stay in sync)."""
import json, sys

CLAIMED = {
 "C01": ("SPEC differential", "4", "generated (path AST, document) pairs; library result compared with the independent SPEC interpreter: exact sequence/multiplicity/order, error iff SPEC selects nothing; cases reach the library through Parse or Retrieve, with or without a Config, 1 in 4 after a twin path differing by one character; the document is given new content in place and evaluated again; one parsed path shared by 2..5 goroutines on different documents under the race detector (TestC01_SharedParsed); documents with shared containers and arrays that are windows of one another; a decoy Config with the same function names goes first for one case in five"),
 "C02": ("validity predicate over generated/mutated/enumerated strings", "4", "about 1e6 generated strings per quick run (grammar-derived, mutated, token soup, Unicode, invalid UTF-8, boundary integers) plus the completely enumerated reduced grammar, under 4 configs: Parse returns exactly one of (function, nil) / (nil, documented syntax-check error), never panics, dies or hangs; every accepted path is also evaluated on hard documents (all JSON types side by side, numbers beyond the float64 range, uncomparable Go values)"),
 "C03": ("validity predicate + SPEC cross-check over generated (path, document) pairs", "4", "every accepted path of the C02 generators evaluated on generated documents (directed, free, empty, null/scalar roots; both decodings; failing user functions): result is (non-empty, nil) or (nil, documented runtime error), ErrorFunctionFailed only after a user function failed, and 'SPEC selects nothing' <=> error; plus every accepted sentence of the enumerated reduced grammar evaluated on six documents (small, hard in both decodings, Go-built with uncomparable values) (TestC03_Reduced)"),
 "C04": ("invariant (type-exact snapshot + storage headers) over generated cases; shared-document scenario under the race detector", "4", "document snapshot (values, dynamic types, slice headers, map identities) before vs after every generated retrieval, success or failure, accessor mode on/off; plus goroutines evaluating filter-heavy paths on one shared document under -race, where a write that is later undone shows up as a data race; result slices are handed back as source documents; function names no Config registers are appended"),
 "C05": ("stateful history testing against fresh Retrieve and SPEC", "4", "drawn call histories (<=8/16 ops) on one parsed function over documents that flip filter verdicts, interleaved with unrelated Parse/Retrieve, scribbling on earlier results and forced GC; each call equals a fresh Retrieve and SPEC, earlier results stay intact and never share storage"),
 "C06": ("generated concurrent scenarios under the Go race detector + sequential-equivalence oracle", "4", "2..16 goroutines mixing Parse, Retrieve and calls of shared parsed functions (first calls happen concurrently) on shared documents; race detector with halt_on_error, every result compared with the same operation run alone, documents compared with snapshots; Config objects shared by the goroutines (functions / a copy with accessor mode / accessor only) with a per-call accessor-kind check; focused (1..3 paths) and churn scenarios"),
 "C07": ("metamorphic (physical map layout, repetition) + SPEC order oracle", "4", "each path evaluated 3..10 times on 3..6 physically different but equal Go maps (insertion order, pre-sizing, insert-then-delete), interleaved with other evaluations; every sequence must equal SPEC's (byte-wise key order cross-checked against encoding/json); the order of user-function calls is compared across repetitions and copies; the sequence is also taken in accessor mode"),
 "C08": ("metamorphic relation over three retrievals (split composition)", "4", "every admissible split of every generated path: Retrieve(P.Q,d) equals the in-order concatenation of Retrieve($.Q,v) over Retrieve(P,d); union/multi decomposition and '..X' pre-order expansion checked at the split"),
 "C09": ("metamorphic Boolean-algebra laws over selection index sets + shared-filter scenario under the race detector", "4", "at every node of generated filter expressions (depth 3) over containers of 0..6 distinct members: and=intersection, or=union, parentheses neutral, !=complement, != vs ==, mirror laws for six operators, <=/>= = strict u equal; container order; plus one parsed filter shared by goroutines on containers with different verdict patterns under the race detector (TestC09_SharedFilter); sub-expressions also through config-less Retrieve, sibling atoms that differ by a significant blank"),
 "C10": ("SPEC differential + metamorphic (decode mode, operand order) + shared-function scenario under the race detector", "4", "single-comparison filters over members of every JSON type: per-member agreement with SPEC, identical selection with and without UseNumber, identical selection after swapping operands and mirroring the operator; plus one parsed comparison shared by goroutines on documents with other operand values under the race detector (TestC10_SharedCompare)"),
 "C11": ("exhaustive small scope + random boundary search against a CPython-pinned slice model", "4", "all start/end/step in {omitted} U [-7..7] x lengths 0..6 enumerated completely, plus the boundary-magnitude cross product and random int64 triples up to length 40, compared with Python slice semantics"),
 "C12": ("relational (mode parity) over generated cases with recording functions", "4", "each generated (path, document) evaluated with and without accessor mode: same length, Get() deep-equals the plain value, same error, identical function call logs, never an Accessor inside a function argument"),
 "C13": ("SPEC location model + stateful history against a shadow document + shared-function scenario under the race detector", "4", "for every accessor of every generated result: Set on a fresh copy, then document diff against the original with exactly SPEC's predicted location replaced, Get liveness before/after; drawn Set/direct-update histories checked against a shadow copy; Set == nil exactly for non-locations; plus one accessor-mode subscript path shared by goroutines on arrays of different length, Get/Set checked against SPEC's indexes under the race detector (TestC13_SharedAccessors)"),
 "C14": ("SPEC call-log differential with recording functions", "4", "per function occurrence, the recorded arguments (count, order, values; list vs array-elements for aggregates) are compared with SPEC's expected call log; results must be the chained return values; ErrorFunctionFailed when only functions failed"),
 "C15": ("SPEC failure-candidate differential", "4", "for every generated failing (path, document): the reported error (Go type, path text, expected, found) must match a failure SPEC finds at the deepest failing step, non-type failures preferred; exact for single-valued paths"),
 "C18": ("metamorphic (spelling variants) guarded by PEGI", "4", "each generated AST rendered in 2..6 random spellings of the kinds the grammar declares insignificant (each verified derivable by PEGI); all spellings must return deep-equal values or errors of the same type for the same step"),
 "C19": ("stateful history testing against fresh-process baselines + long-run revisits against SPEC", "4", "drawn histories of Parse calls over a pool of 312 (path, config) descriptors that fail at every grammar action or succeed, incl. modifying a Config after Parse; each outcome (error text or behaviour on probe documents) must equal the descriptor's outcome as the first call of a fresh process; plus TestC19_LongRun: thousands of distinct config-less paths per process (Parse and Retrieve), each compared with SPEC, remembered ones evaluated again after 70..4200 further distinct paths; replays carry the history"),
 "C20": ("SPEC differential on documents with injected non-JSON values", "4", "generated documents with leaves/sub-containers replaced by 22 kinds of non-JSON Go values; results (by identity), function arguments and errors (ErrorTypeUnmatched naming the Go type) compared with SPEC's opaque-leaf rule; no panic; wrappers (pointer, Accessor, json.RawMessage) around sub-documents; accessor-mode evaluation against SPEC"),
 "C16": ("model-based (Go map lookup) over generated keys and spellings", "4", "generated keys (all planes, symbols, control characters, escape look-alikes) among near-miss siblings, addressed through every spelling (single/double quotes x 3 escape styles, lone-surrogate escape, dot form) in 9 positions; each must return exactly the map's value; absent near-miss keys must give ErrorMemberNotExist; plus pairs of paths with equal 32-bit FNV-1a / FNV-1 / Adler-32 hashes from a birthday search, evaluated A, B, A through Parse and Retrieve (TestC16_Collide)"),
 "C17": ("differential against PEGI, an interpreter of jsonpath.peg", "4", "Parse's accept/reject decision, error type, character position and near text compared with an independent interpreter executing the published grammar file plus the documented restrictions, on generated/mutated strings and the enumerated reduced grammar; every string is parsed twice and must get the same verdict"),
}
PENDING = {}
for i in range(1, 21):
    pid = "C%02d" % i
    if pid not in CLAIMED:
        PENDING[pid] = "check not built yet (work in progress in this session)"

checks = []
for pid, (tech, ref, text) in sorted(CLAIMED.items()):
    checks.append({
        "property_id": pid,
        "quick_cmd": "./bin/verifrun -property %s -tier quick" % pid,
        "thorough_cmd": "./bin/verifrun -property %s -tier thorough" % pid,
        "evidence_file": "evidence/%s.json" % pid,
        "replay_cmd_template": "./bin/verifrun -replay {path}",
        "engine": "verifrun",
        "technique": "property-based testing (rapid v1.3.0): " + tech,
        "level_claimed": {"category": "exploration", "text": text, "design_ref": "DESIGN.md §" + ref + " " + pid},
        "level_note": "held on every generated case only; trusted base: the harness generators/oracles under /verif/harness, rapid v1.3.0, the Go toolchain and encoding/json",
    })
m = {
 "version": 1,
 "setup_cmd": "cd harness && GOFLAGS=-mod=mod GOPROXY=off GOSUMDB=off GOTOOLCHAIN=local go build -o ../bin/verifrun ./cmd/verifrun",
 "hooks": {
   "guard": "verif",
   "enable": "no source hooks are needed: every check observes the library through its public API; the harness module replaces github.com/AsaiYusuke/jsonpath with /repo, so each check rebuilds from /repo's working tree",
   "baseline_off_cmd": "cd /repo && go test -vet=off -count=1 ./...",
   "source_commits": [],
   "add_only": True,
 },
 "engines": [{"name": "verifrun", "path": "harness/cmd/verifrun", "serves_properties": sorted(CLAIMED), "kind_free_text": "driver: builds the property test binary against /repo, runs rapid shards in subprocesses, captures crashes via a journal, shrinks/replays, writes evidence"}],
 "checks": checks,
 "not_applicable": [{"property_id": k, "reason": v} for k, v in sorted(PENDING.items())],
 "notes": "Exit codes: 0 held, 1 VIOLATION (reproduced from its replay file), 2 inconclusive. Genuine defects repaired in /repo are listed in known_findings.txt as 'fixed:' entries.",
}
json.dump(m, open("MANIFEST.json", "w"), indent=1)
print("claimed", len(checks), "pending", len(PENDING))
