#!/usr/bin/env python3
"""Development aid: folds seeded/results.tsv into every seeded/<id>/meta.json and rewrites the
seed table of DESIGN.md (between the SEEDTABLE markers)."""
import json, os, glob, collections, re
res=collections.defaultdict(list)
for line in open('/verif/seeded/results.tsv'):
    parts=line.rstrip('\n').split('\t')
    if len(parts)<3 or not parts[0]: continue
    res[parts[0]].append({"check":parts[1],"verdict":parts[2],"detail":parts[3] if len(parts)>3 else ""})
notes={
 'C01-B':'+ a rejected "poison" parse right before 1 case in 6; C19: + root-less filter-start descriptors',
 'C02-B':'+ hang detector and the deep-nesting string family',
 'C03-A':'+ numbers only json.Number can hold (1e999 …) in generated documents',
 'C07-B':'+ function steps (order-sensitive aggregates) in the C07 templates',
 'C10-B':'+ integers ≥ 2^63 in documents and literals',
 'C13-B':'+ accessors of the first retrieval re-checked after later accessor-mode retrievals',
 'C17-A':'+ process-history prefix makes the replay reproduce',
 'C18-B':'+ raw control character inside quotes compared between the two quote styles',
 'C01-D':'+ documents with a shared sub-container (DAG) in C01',
 'C03-D':'a concurrency defect filed under C03: caught by C06',
 'C05-D':'+ re-entrant user function ("fre" calls the parsed function while the outer call runs); also C06',
 'C07-D':'+ keys longer than 8 bytes with common prefixes',
 'C06-D':'+ expectations from SPEC (no library evaluation before the concurrent phase, so first-use state is cold), long arrays, wildcard subscripts in unions',
 'C09-C':'+ repeated function names; sibling atoms of && / || generated as variants of each other',
 'C09-D':'+ float64 neighbours (1 ULP) of literals in generated members',
 'C11-C':'+ TestC11_Chained: 2–3 chained subscripts on matrices with distinct cells',
 'C14-C':'+ the call log is also compared in accessor mode',
 'C14-D':'+ re-entrant "fre" inside every evalLibrary call; also C05, C06',
 'C16-D':'+ null-valued member variant',
 'C17-D':'+ PEGI now interprets a committed reference copy of the grammar (the seed edits jsonpath.peg and the generated parser consistently)',
 'C18-D':'+ keys with both a non-ASCII character and a symbol',
 'C19-C':'+ tagger closures share one code pointer (//go:noinline constructor)',
 'C02-E':'+ chains of multi-name selectors in the deep-nesting family (exponential walk), caught by the hang detector',
 'C05-F':'+ wide objects and "rename a member in place between two calls" in C05 histories',
 'C07-E':'+ multi-name selectors with more names than the object has members (unsorted, repeated, absent names)',
 'C07-F':'+ re-entrant "fre" in the C07 templates (a function re-enters the parsed function mid-traversal)',
 'C08-F':'+ re-entrant "fre" in C08\'s retrievals',
 'C09-F':'+ parsed functions are reused across cases (first/latest document saved for the replay)',
 'C10-E':'+ function operands ($.xs.g1(), @.v.f2(), @.v.fnan()) in the C10 generator',
 'C10-F':'+ NaN through the operand function "fnan"',
 'C04-E':'+ arrays that are prefix views of another array\'s storage (spare capacity over live data)',
 'C04-F':'+ documents with non-JSON values (incl. []map[string]interface{}) in C04',
 'C11-E':'+ every slice evaluated twice on the same array around another retrieval; array compared with a snapshot',
 'C11-F':'+ TestC11_SharedSlice: one parsed slice shared by goroutines on arrays of different length (race build)',
 'C12-E':'+ a config-less call right after a failed accessor-mode Parse',
 'C12-F':'+ the order of SetAccessorMode / Set…Function varies with the case',
 'C17-E':'+ regular expressions at the edge of Go\'s syntax in the reduced grammar and the vocabulary',
 'C18-E':'+ every spelling parsed right after a rejected Parse (1 case in 6)',
 'C19-E':'+ one Config object per configuration reused across a history; Parse(path, cfgA, cfgB)',
 'C20-F':'+ opaque document roots; *interface{} (also nil), typed-nil containers',
 'C19-D':'+ "modify the Config in place, then Parse the same path again" compared with an equal freshly built Config',
 'C02-H':'+ Parse / Retrieve with a list of 2-3 Configs (7 shapes: empty first, accessor-only first, filter-only + aggregate-only in both orders ...)',
 'C03-G':'+ documents with non-JSON Go values in C03 (filter-heavy paths; several values of one uncomparable type); also C20',
 'C03-H':'+ non-JSON document roots (typed nil pointers) in C03; also C20',
 'C06-H':'+ calls with no Config argument at all, paths in spellings the process has not parsed before; nothing parsed config-less before the concurrent phase; hang confirmation retried for schedule-dependent checks',
 'C07-G':'+ equal subtrees held as ONE Go object referenced twice in some physical copies; also C01',
 'C07-H':'+ a member renamed in place on a map just traversed, evaluated again and compared with a freshly built equal map; also C05',
 'C11-G':'+ subscripts in context in TestC11_Chained (followed by a name step; inside @ / $ filter operands); also C01',
 'C11-H':'+ long arrays (63 ... 2049 elements) and length-relative bounds in TestC11_Random',
 'C12-G':'+ the accessor-mode Config made by copying the plain Config value (derived := base; derived.SetAccessorMode())',
 'C14-H':'+ catalogue functions that reject zero (float64 0 and json.Number "0")',
 'C16-H':'+ U+007F written raw inside quotes (JSON allows it unescaped)',
 'C19-G':'+ the history\'s own []Config passed as configs[k:]... with functions registered on its elements between calls',
 'C19-H':'+ Configs derived by copying a Config value and calling a setter on the copy',
 'C01-J':'+ the document object is given new content in place and evaluated again through the same parsed function (C01, C10, C05 transplant operation)',
 'C03-J':'+ cases reach the library through Retrieve as well as Parse; catalogue functions fnest / gnest run a JSONPath themselves; the Go runtime\'s own deadlock report counts as confirmation of a hang',
 'C04-I':'+ a function name no Config registers appended to the path (the document must stay intact whatever the library makes of it); also rejected-by-definition in the reduced grammar of C02 / C17',
 'C04-J':'+ a result slice handed back to the library as the source document of further retrievals',
 'C06-I':'+ Config objects shared by all goroutines of a scenario (functions; a copy of it with accessor mode; accessor mode only), accessor-ness of every result checked against the Config of that very call, scenarios focused on one to three paths',
 'C06-J':'+ churn scenarios (ten times the calls, shared parsed functions only, short documents)',
 'C07-I':'+ the order in which user functions are called is compared across repetitions and physical copies; functions inside filters applied to objects',
 'C07-J':'+ the sequence is also taken in accessor mode (Get() of every accessor against the expected sequence)',
 'C08-I':'+ documents with non-JSON values in C08, among them pointers to / Accessors around / raw JSON text of a sub-document',
 'C09-I':'+ function-free sub-expressions evaluated through Retrieve with no Config (one case in four); sibling atoms that differ by one blank inside a string literal, name or regular expression',
 'C09-J':'+ TestC09_SharedFilter: one parsed filter shared by goroutines on containers with different verdict patterns (race build)',
 'C10-I':'+ $.x and $.y swapped in place (member list reversed) and the same parsed function evaluated again',
 'C12-I':'+ the document root handed over inside an Accessor / behind a pointer / as raw JSON text; non-JSON values inside documents in C12',
 'C12-J':'+ (same generator) and replay files that carry the 64 cases the process ran before the first failing one',
 'C13-I':'+ non-JSON documents (typed maps and slices, pointers, Accessors) in C13 and accessor-mode evaluation in C20',
 'C14-I':'+ catalogue functions fnest / gnest that return the inner retrieval\'s own error value',
 'C14-J':'+ evaluation through Retrieve with a Config (closures of one function literal per name)',
 'C15-J':'+ catalogue functions fnest / gnest that return the inner retrieval\'s own error value',
 'C16-I':'+ TestC16_Collide: pairs of paths with equal 32-bit FNV-1a / FNV-1 / Adler-32 hashes found by a birthday search',
 'C17-J':'+ every string is parsed twice in a row and must get the same verdict',
 'C18-I':'+ keys with a backslash directly before a quote character in the shared key alphabet',
 'C18-J':'+ every case may be preceded by a twin path that differs by one character (a blank dropped), through the same entry point, with no Config when the path has no function',
 'C19-J':'+ TestC19_LongRun: thousands of distinct config-less paths per process, remembered cases evaluated again after 70 ... 4200 further distinct paths; the replay carries the whole history',
 'C20-J':'+ Accessor values (zero and live) among the non-JSON values',
 'C01-K':'+ regular expressions that are a literal anchored at both ends (^a$, ^ab$, \\Aa\\z) and strings that merely contain the literal',
 'C02-K':'+ script qualifiers of every shape ((@.length), (@.length-1), ...) in the reduced grammar and the vocabulary',
 'C05-K':'+ root-less paths in C05 and a "rejected Parse" operation in its histories; a rejected Parse precedes 1 case in 6 of every check that goes through evalLibrary',
 'C06-K':'+ corpus paths whose && / || have one operand decided for the whole container ($-rooted, literal); also TestC09_SharedFilter',
 'C06-L':'+ every goroutine appends to results it was given earlier while later results (its own and the others\') are alive, and re-reads them',
 'C07-K':'+ rows of records (arrays directly inside arrays, each holding several objects) in the C07 documents',
 'C08-L':'+ the three retrievals of C08 are also written without the leading "$" and after a rejected Parse',
 'C10-K':'+ an operand with a nested filter followed by a function; every comparison also evaluated in accessor mode',
 'C11-K':'+ zero written with a minus sign (-0) among the integer spellings',
 'C12-K':'+ the accessors of the first call are read again after the same parsed function was called on another document',
 'C12-L':'+ Parse(path, configs...) with the caller changing configs[0] afterwards (SetAccessorMode / reset)',
 'C14-K':'+ a rejected Parse precedes 1 case in 6 (evalLibrary)',
 'C14-L':'+ other functions registered under the same names on the same Config object after Parse: they must never be called',
 'C16-K':'+ the member addressed below a filter applied to an OBJECT (then "..name" / a name), below a wildcard, and by a filter below a wildcard',
 'C16-L':'+ the member addressed by a parsed function whose previous call was cut short by a panicking user function (the caller recovered); also a C05 operation',
 'C18-K':'+ names written with every character as a \\uXXXX escape, U+FFFD as a lone surrogate escape followed by another escape, in both quote styles',
 'C18-L':'+ "+" sign / leading zeros on integer literals of filters; integers beyond 2^53 written as integers in the documents (and their neighbours)',
 'C19-L':'+ an evaluation with 1 100 ... 70 000 results right before a case of the long run (and as a C05 operation)',
 'C20-K':'+ the returned error is used as a value (map key, ==)',
 'C01-N':'+ the catalogue name "fboth" is registered both as a filter and as an aggregate function, in either order (a function step means the filter function; the order of registration is not part of what a Config says)',
 'C02-N':'+ a Config that also registers functions under names no path can spell (empty, with a blank or dot, non-ASCII)',
 'C03-M':'+ a retrieval in which a user function panics (recovered by the caller) right before 1 case in 23',
 'C05-N':'+ the caller\'s one Config object is used for Parse and for every fresh Retrieve; an unrelated retrieval is given that Config and a second one binding the same names to other functions',
 'C06-M':'+ retrievals in which a user function panics, recovered by their goroutine, among the operations of a scenario',
 'C06-N':'+ corpus paths with fnest / gnest (functions that call Retrieve themselves); regression cases run under the hang detector too; one confirmed hang per run, 40 s replay limit',
 'C07-N':'+ an array of 1025..1114 elements somewhere in the document and subscripts directly after a recursive descent; documents of every check get one array stretched beyond 1024 elements once in 250 cases',
 'C08-N':'+ a retrieval with a panicking user function (inside a filter operand among others) before some of the three retrievals',
 'C10-M':'+ TestC10_SharedCompare: one parsed comparison shared by goroutines on documents with other operand values (race build); also TestC06 corpus paths with a literal left of an ordering comparison with a root path',
 'C13-M':'+ every second null leaf of the C13 documents stays null',
 'C13-N':'+ TestC13_SharedAccessors: one accessor-mode subscript path shared by goroutines on arrays of different length; Get and Set checked against SPEC\'s indexes (race build)',
 'C14-N':'+ documents in which one container is reachable by two paths (C14)',
 'C15-M':'+ "%" in keys, string literals, regular expressions and the mutation alphabet',
 'C16-M':'+ arrays directly inside arrays in the nested document of C16',
 'C18-M':'+ a byte that is not UTF-8 written for U+FFFD in quoted and in dot spellings',
 'C19-M':'+ descriptors whose string literals / regular expressions hold backslash sequences, and a probe document that tells their readings apart',
 'C02-O':'+ an empty (non-nil) Config slice spread into Parse / Retrieve',
 'C05-P':'a function name matched regardless of letter case: outside what the valid-path generator of C05 can write; caught by C17 / C02 (case variants of the registered names must be ErrorFunctionNotFound)',
 'C06-P':'+ shared parsed functions whose user function "fre" calls that very parsed function again (the recursion ends by the value, no state shared between goroutines)',
 'C07-P':'+ member names with U+0000 that agree up to it (k, k\\0, k\\0a, k\\0b)',
 'C10-P':'+ numbers beyond the float64 range (1e999, -1e999) among the members and root operands',
 'C11-O':'+ the subscripts of every random case also in accessor mode (every index, duplicates kept)',
 'C11-P':'+ ... and with a filter function directly behind them',
 'C13-O':'+ documents in which one container is reachable by two paths, in accessor mode (C13)',
 'C14-P':'+ documents with non-JSON values in C14 (a nil []interface{} is an array without elements)',
 'C16-P':'+ the member addressed after non-ASCII dot and bracket names',
 'C18-O':'+ integers padded with 22 leading zeros',
 'C19-O':'+ Configs copied from a base holding 0..5 functions, each copy registering one more: what was registered through a copy stays reachable through it',
 'C01-Q':'+ one C01 case in eight is also evaluated in accessor mode against SPEC (values behind the accessors, order, Set nil exactly for non-locations)',
 'C01-R':'+ (same: C01 in accessor mode)',
 'C02-Q':'+ every accepted path is also evaluated on two hard documents (every JSON type side by side, numbers beyond the float64 range, UseNumber)',
 'C02-R':'+ ... and on a document built in Go whose members hold several values of one uncomparable type ([]string, map[string]int)',
 'C03-R':'+ TestC03_Reduced: every reduced-grammar sentence that Parse accepts is evaluated on six documents (small, hard in both decodings, Go-built)',
 'C06-Q':'+ Configs also handed over as sub-slices of one list shared by the goroutines (list[k-1:k]..., and the empty prefix list[:0]... for "no Config")',
 'C06-R':'+ corpus paths with the bare current node as an existence test under && / || / ! on the shared arrays',
 'C07-Q':'+ a six-element array member and unions of touching slices written high part first, repeated and crossing subscripts',
 'C08-Q':'+ multi-name selectors whose entries are quoted names that read like syntax (\'*\', \'@\', \'$\', \'..\'); the "selector = concatenation of its single selectors" corollary now also on arrays for selectors without a wildcard entry',
 'C08-R':'+ the whole path also in accessor mode (values behind the accessors against the plain result)',
 'C09-R':'+ a sibling atom may be the existence test of an operand the comparison reads ("@.p && @.p == $.q")',
 'C10-Q':'+ regular expressions that are a literal anchored at both ends in C10 (^1$, ^a$, \\Aab\\z, ^10$)',
 'C10-R':'+ an operand whose nested filter reads a root member (@.v[?(@ > $.x)].g1())',
 'C11-Q':'+ the random subscripts followed by an aggregate function on an array of arrays, against SPEC',
 'C11-R':'+ subscripts alone as the operand of an existence test ($[?(@<subscripts>)]), with step 0 forced in a quarter of them',
 'C12-R':'+ Retrieve with two Configs in one call (accessor + plain, accessor + empty, plain + accessor): the first one counts',
 'C15-Q':'the error-text matcher accepted the bare entry name for entries of a multi-name selector, which for the empty name is the empty text: name entries never report by themselves, the tolerance was removed',
 'C16-Q':'+ the member addressed as a root member from inside a filter nested in an @-operand',
 'C19-R':'+ Configs kept in one slice: Parse(path, all[:1]...) / Retrieve(path, doc, all[:0]...) leave the other elements alone',
 'C20-G':'+ defined types over float64 / string / bool and json.RawMessage among the opaque values',
 'C01-S':'+ TestC01_SharedParsed: one parsed path shared by goroutines on different documents, against SPEC',
 'C02-S':'+ hexadecimal-float and other ParseFloat spellings of number literals (generated filters, mutation vocabulary)',
 'C03-S':'+ every function withdrawn from the Config (nil registered) between Parse and the call',
 'C10-S':'+ a decoy Config (same function names and mode, other functions) sends the same path through the same entry point first',
 'C11-S':'+ chained cases evaluated again on copies with shared containers / arrays that are windows of one another',
 'C13-S':'+ Set values: null, numbers, containers, empty non-nil containers alone and nested',
 'C15-S':'+ one member name of 65 400..66 100 characters in 1 path of 300 (paths beyond 64 KiB)',
 'C16-S':'+ the member asked for by a path that starts with the filter (no $) right after a Parse rejected inside a filter operand',
 'C17-S':'+ tails of 270..1500 characters behind 1 path in 25 (near must be long)',
 'C18-S':'+ member names that begin or end with a blank (the escaped blank as the last character of the path)',
 'C20-S':'+ zero-size non-nil values of different types (one address), paired on purpose',
 'C05-T':'+ history operation "rebind": other functions registered under the same names on the Config the path was parsed with; later calls of the parsed function are compared with SPEC and with a fresh Retrieve on an equal Config',
 'C10-T':'+ every document with an empty array/object is evaluated again with nil slices / nil maps as its empty containers (still arrays and objects, never null)',
 'C14-T':'+ accessor mode: every result is read twice through Get before the call log is compared; what Get hands out is compared with the chained return values',
 'C16-T':'+ a kept parsed function whose filter reads the member from the root, the member replaced in place between four calls',
 'C19-T':'+ Config modification kind 3: an aggregate function alone re-registered under its name (no filter function set in the same step)',
}
rows=[]
for d in sorted(glob.glob('/verif/seeded/C*-*')):
    sid=os.path.basename(d)
    meta=json.load(open(d+'/meta.json'))
    runs=res.get(sid,[])
    hist=collections.OrderedDict()
    for r in runs: hist.setdefault(r['check'],[]).append(r['verdict'])
    meta['breaks_property']=meta.get('property', sid[:3])
    meta['confirmed_by_me']=("applied patch.diff in a scratch worktree of /repo: package builds, the unedited suite passes, "
        "demo_test.go fails with the patch and passes without it (seed_confirm.sh); "
        "then: git -C /repo apply patch.diff; ./bin/verifrun -property <id> -tier quick; git -C /repo checkout -- . && git clean (mutant_run.sh)")
    meta['check_runs']=runs
    meta['detected_by']=sorted(k for k,v in hist.items() if v[-1]=='DETECTED')
    meta['history']=dict(hist)
    json.dump(meta, open(d+'/meta.json','w'), indent=1, ensure_ascii=False)
    own=hist.get(sid[:3],[])
    first=own[0].lower() if own else '?'
    last=own[-1].lower() if own else '?'
    others=[k for k,v in hist.items() if k!=sid[:3] and v[-1]=='DETECTED']
    need=(meta.get('needs_to_manifest') or meta.get('what_it_needs_to_manifest') or '').replace('\n',' ').replace('|','/')
    if len(need)>140: need=need[:137]+'…'
    note=notes.get(sid,'')
    if others: note=(note+'; ' if note else '')+'also caught by '+', '.join(others)
    rows.append('| %s | %s | %s | %s | %s |' % (sid, need, first, last, note))
table='| seed | what it needs | first run | now | what was strengthened |\n|---|---|---|---|---|\n'+'\n'.join(rows)
p='/verif/DESIGN.md'
s=open(p).read()
s=re.sub(r'<!-- SEEDTABLE-BEGIN -->.*?<!-- SEEDTABLE-END -->', lambda m: '<!-- SEEDTABLE-BEGIN -->\n'+table+'\n<!-- SEEDTABLE-END -->', s, flags=re.S)
open(p,'w').write(s)
n=len(rows); miss=[r for r in rows if '| missed |' in r.split('|',5)[4:5][0] if False]
print(n,'seeds;', sum(1 for d in glob.glob('/verif/seeded/C*-*') if json.load(open(d+'/meta.json'))['detected_by']), 'detected')
