// dumpcorpus writes the committed fallback copy of the suite's paths and documents
// (/verif/corpus), used when /repo/test_jsonpath_test.go cannot be parsed.
package main

import (
	"encoding/json"
	"fmt"
	"os"

	"verif/harness/suite"
)

func main() {
	cases, skipped, err := suite.Extract("/repo/test_jsonpath_test.go")
	if err != nil {
		fmt.Println(err)
		os.Exit(1)
	}
	seenP, seenD := map[string]bool{}, map[string]bool{}
	var paths, docs []string
	for _, c := range cases {
		if !seenP[c.Path] {
			seenP[c.Path] = true
			paths = append(paths, c.Path)
		}
		if c.Input != "" && !seenD[c.Input] {
			seenD[c.Input] = true
			docs = append(docs, c.Input)
		}
	}
	_ = os.MkdirAll("/verif/corpus", 0o755)
	b, _ := json.MarshalIndent(paths, "", " ")
	_ = os.WriteFile("/verif/corpus/suite_paths.json", b, 0o644)
	b, _ = json.MarshalIndent(docs, "", " ")
	_ = os.WriteFile("/verif/corpus/suite_docs.json", b, 0o644)
	fmt.Printf("%d cases (%d skipped): %d paths, %d documents\n", len(cases), skipped, len(paths), len(docs))
}
