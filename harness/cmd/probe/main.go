// probe evaluates one path on one JSON document with the recording function catalogue
// (development aid): probe [-n] [-a] <path> <json>
package main

import (
	"flag"
	"fmt"

	"github.com/AsaiYusuke/jsonpath"

	"verif/harness/gen"
	"verif/harness/props"
)

func main() {
	useNumber := flag.Bool("n", false, "UseNumber")
	accessor := flag.Bool("a", false, "accessor mode")
	times := flag.Int("k", 1, "call the parsed function k times")
	flag.Parse()
	rec := &props.Recorder{}
	cfg := props.BuildConfig(rec, true, *accessor)
	f, err := jsonpath.Parse(flag.Arg(0), cfg)
	if err != nil {
		fmt.Printf("parse error: %T %v\n", err, err)
		return
	}
	for i := 0; i < *times; i++ {
		doc := gen.MustDecode(flag.Arg(1), *useNumber)
		got, err := f(doc)
		fmt.Printf("result: %s\nerror: %T %v\n", props.JSONString(got), err, err)
		fmt.Printf("doc after: %s\n", props.JSONString(doc))
	}
	for _, c := range rec.Calls {
		fmt.Printf("call %s(%s) failed=%v\n", c.Fn, props.JSONString(c.Arg), c.Err)
	}
}
