// verifrun is the only thing MANIFEST.json commands call (DESIGN.md §3.1):
//
//	verifrun -property C01 -tier quick|thorough [-seed N]
//	verifrun -replay <file>
//	verifrun -list
//
// It rebuilds the property test binary against /repo's current working tree, runs it in
// shard subprocesses, aggregates statistics into /verif/evidence/<id>.json and chooses the
// exit code: 0 held, 1 VIOLATION (reproduced), 2 inconclusive.
package main

import (
	"bytes"
	"crypto/sha256"
	"encoding/binary"
	"encoding/json"
	"flag"
	"fmt"
	"hash/crc32"
	"os"
	"os/exec"
	"path/filepath"
	"regexp"
	"sort"
	"strconv"
	"strings"
	"sync"
	"syscall"
	"time"
	"unicode/utf8"
)

var verifDir = "/verif"

type shardResult struct {
	check    *checkSpec
	shard    int
	exit     int
	timedOut bool
	log      string
	failFile string
	journal  string
	passed   int // rapid "OK, passed N"
	wall     float64
}

func env(extra ...string) []string {
	e := os.Environ()
	e = append(e, "GOFLAGS=-mod=mod", "GOPROXY=off", "GOSUMDB=off", "GOTOOLCHAIN=local")
	return append(e, extra...)
}

func fatal2(format string, args ...any) {
	fmt.Printf("INCONCLUSIVE: "+format+"\n", args...)
	os.Exit(2)
}

// repoDir is the library tree the checks are built against: /repo, unless VERIF_REPO_DIR names
// another checkout (used only for background exploration on a snapshot; MANIFEST commands never set it).
func repoDir() string {
	if d := os.Getenv("VERIF_REPO_DIR"); d != "" {
		return d
	}
	return "/repo"
}

// altModfile writes a go.mod whose replace directive points at repoDir() and returns the flag.
func altModfile() []string {
	if repoDir() == "/repo" {
		return nil
	}
	src, err := os.ReadFile(filepath.Join(verifDir, "harness", "go.mod"))
	if err != nil {
		return nil
	}
	dir := filepath.Join(verifDir, ".build")
	_ = os.MkdirAll(dir, 0o755)
	mod := filepath.Join(dir, "go.alt.mod")
	_ = os.WriteFile(mod, []byte(strings.Replace(string(src), "=> /repo", "=> "+repoDir(), 1)), 0o644)
	if sum, err := os.ReadFile(filepath.Join(verifDir, "harness", "go.sum")); err == nil {
		_ = os.WriteFile(filepath.Join(dir, "go.alt.sum"), sum, 0o644)
	}
	return []string{"-modfile=" + mod}
}

func buildBinary(out string, race bool) error {
	args := []string{"test", "-c", "-vet=off", "-o", out}
	args = append(args, altModfile()...)
	if race {
		args = append(args, "-race")
	}
	args = append(args, "./props")
	cmd := exec.Command("go", args...)
	cmd.Dir = filepath.Join(verifDir, "harness")
	cmd.Env = env()
	var buf bytes.Buffer
	cmd.Stdout, cmd.Stderr = &buf, &buf
	if err := cmd.Run(); err != nil {
		return fmt.Errorf("go test -c failed: %v\n%s", err, buf.String())
	}
	return nil
}

func rapidSeed(verifSeed int64, shard int, check string) uint64 {
	h := uint64(crc32.ChecksumIEEE([]byte(check)))
	s := (uint64(verifSeed)*1000003 + uint64(shard)*7919 + h) % (1 << 62)
	return s + 1
}

var passedRe = regexp.MustCompile(`OK, passed (\d+) tests`)

func runShard(bin string, cs *checkSpec, shard int, checks int, seed int64, tier, workDir string, timeout time.Duration) shardResult {
	res := shardResult{check: cs, shard: shard}
	base := filepath.Join(workDir, fmt.Sprintf("%s.%d", cs.Test, shard))
	res.failFile = base + ".fail.json"
	res.journal = base + ".journal"
	os.Remove(res.failFile)
	os.Remove(res.failFile + ".pending")
	os.Remove(res.failFile + ".first")
	os.Remove(res.journal)
	args := []string{"-test.run", "^" + cs.Test + "$", "-test.v", "-test.timeout", "0",
		"-rapid.checks", strconv.Itoa(checks), "-rapid.seed", strconv.FormatUint(rapidSeed(seed, shard, cs.Test), 10),
		"-rapid.nofailfile"}
	cmd := exec.Command(bin, args...)
	cmd.Dir = workDir
	gomax := ""
	if cs.Race {
		gomax = []string{"2", "4", "16"}[shard%3]
	}
	cmd.Env = env(
		"VERIF_SHARD="+strconv.Itoa(shard),
		"VERIF_NSHARDS="+strconv.Itoa(cs.shards(tier)),
		"VERIF_TIER="+tier,
		"VERIF_SEED="+strconv.FormatInt(seed, 10),
		"VERIF_STATS_DIR="+workDir,
		"VERIF_FAIL_OUT="+res.failFile,
		"VERIF_JOURNAL="+res.journal,
		"VERIF_REPLAY_DIR="+filepath.Join(verifDir, "replays"),
		"VERIF_REPO="+repoDir(),
		"VERIF_BIN="+bin,
		"GORACE=halt_on_error=1 exitcode=66",
	)
	if gomax != "" {
		cmd.Env = append(cmd.Env, "GOMAXPROCS="+gomax)
	}
	var buf bytes.Buffer
	cmd.Stdout, cmd.Stderr = &buf, &buf
	cmd.SysProcAttr = &syscall.SysProcAttr{Setpgid: true}
	start := time.Now()
	if err := cmd.Start(); err != nil {
		res.exit = 2
		res.log = err.Error()
		return res
	}
	done := make(chan error, 1)
	go func() { done <- cmd.Wait() }()
	select {
	case err := <-done:
		if err != nil {
			if ee, ok := err.(*exec.ExitError); ok {
				res.exit = ee.ExitCode()
				if res.exit < 0 {
					res.exit = 128
				}
			} else {
				res.exit = 2
			}
		}
	case <-time.After(timeout):
		_ = syscall.Kill(-cmd.Process.Pid, syscall.SIGKILL)
		<-done
		res.timedOut = true
		res.exit = 124
	}
	res.wall = time.Since(start).Seconds()
	res.log = buf.String()
	_ = os.WriteFile(base+".log", buf.Bytes(), 0o644)
	if m := passedRe.FindStringSubmatch(res.log); m != nil {
		res.passed, _ = strconv.Atoi(m[1])
	}
	return res
}

// shardStats mirrors props.Stats.
type shardStats struct {
	Property     string           `json:"property"`
	Check        string           `json:"check"`
	Shard        int              `json:"shard"`
	Evaluations  int64            `json:"evaluations"`
	Cases        int64            `json:"cases"`
	NonTrivial   int64            `json:"nontrivial_total"`
	Classes      map[string]int64 `json:"classes"`
	Samples      []interface{}    `json:"samples"`
	Rule         string           `json:"rule"`
	Exhaustive   bool             `json:"exhaustive"`
	HashesCapped bool             `json:"hashes_capped"`
}

type merged struct {
	evaluations, cases, nontrivial int64
	distinct                       int
	classes                        map[string]map[string]int64
	samples                        []interface{}
	rules                          []string
	exhaustive                     map[string]bool
	capped                         bool
	casesBy                        map[string]int64
}

func mergeStats(workDir string, specs []*checkSpec) merged {
	m := merged{classes: map[string]map[string]int64{}, exhaustive: map[string]bool{}, casesBy: map[string]int64{}}
	for _, cs := range specs {
		files, _ := filepath.Glob(filepath.Join(workDir, cs.Test+".*.stats.json"))
		sort.Strings(files)
		var hashes []uint64
		ruleSeen := false
		for _, f := range files {
			b, err := os.ReadFile(f)
			if err != nil {
				continue
			}
			var s shardStats
			if json.Unmarshal(b, &s) != nil {
				continue
			}
			m.evaluations += s.Evaluations
			m.cases += s.Cases
			m.casesBy[cs.Test] += s.Cases
			m.nontrivial += s.NonTrivial
			if m.classes[cs.Test] == nil {
				m.classes[cs.Test] = map[string]int64{}
			}
			for k, v := range s.Classes {
				m.classes[cs.Test][k] += v
			}
			if len(m.samples) < 12 {
				for _, smp := range s.Samples {
					if len(m.samples) < 12 {
						m.samples = append(m.samples, map[string]interface{}{"check": cs.Test, "case": smp})
					}
				}
			}
			if !ruleSeen && s.Rule != "" {
				m.rules = append(m.rules, cs.Test+": "+s.Rule)
				ruleSeen = true
			}
			if s.Exhaustive {
				m.exhaustive[cs.Test] = true
			}
			m.capped = m.capped || s.HashesCapped
			hb, err := os.ReadFile(strings.TrimSuffix(f, ".stats.json") + ".hashes")
			if err == nil {
				for i := 0; i+8 <= len(hb); i += 8 {
					hashes = append(hashes, binary.LittleEndian.Uint64(hb[i:]))
				}
			}
		}
		sort.Slice(hashes, func(i, j int) bool { return hashes[i] < hashes[j] })
		d := 0
		for i := range hashes {
			if i == 0 || hashes[i] != hashes[i-1] {
				d++
			}
		}
		m.distinct += d
	}
	return m
}

type knownFinding struct {
	property, id, signature, replay, text string
}

func readKnownFindings() []knownFinding {
	b, err := os.ReadFile(filepath.Join(verifDir, "known_findings.txt"))
	if err != nil {
		return nil
	}
	var out []knownFinding
	for _, line := range strings.Split(string(b), "\n") {
		line = strings.TrimSpace(line)
		if !strings.HasPrefix(line, "finding:") {
			continue
		}
		kf := knownFinding{}
		head, text, _ := strings.Cut(strings.TrimPrefix(line, "finding:"), "::")
		kf.text = strings.TrimSpace(text)
		for _, f := range strings.Fields(head) {
			k, v, _ := strings.Cut(f, "=")
			switch k {
			case "property":
				kf.property = v
			case "id":
				kf.id = v
			case "signature":
				kf.signature = v
			case "replay":
				kf.replay = v
			}
		}
		out = append(out, kf)
	}
	return out
}

// replayFile runs one replay file in a fresh process; returns (violated, inconclusive, log).
func replayFile(bin, file string, timeout time.Duration) (bool, bool, string) {
	cmd := exec.Command(bin, "-test.run", "^TestReplay$", "-test.v", "-test.timeout", "0")
	cmd.Dir = filepath.Dir(bin)
	cmd.Env = env("VERIF_REPLAY_FILE="+file, "VERIF_REPO="+repoDir(), "VERIF_BIN="+bin, "GORACE=halt_on_error=1 exitcode=66")
	var buf bytes.Buffer
	cmd.Stdout, cmd.Stderr = &buf, &buf
	cmd.SysProcAttr = &syscall.SysProcAttr{Setpgid: true}
	if err := cmd.Start(); err != nil {
		return false, true, err.Error()
	}
	done := make(chan error, 1)
	go func() { done <- cmd.Wait() }()
	select {
	case err := <-done:
		out := buf.String()
		if err == nil {
			return false, false, out
		}
		if strings.Contains(out, "REPLAY-VIOLATION") || strings.Contains(out, "fatal error:") ||
			strings.Contains(out, "panic:") || strings.Contains(out, "DATA RACE") {
			return true, false, out
		}
		if strings.Contains(out, "harness:") {
			return false, true, out
		}
		return true, false, out
	case <-time.After(timeout):
		_ = syscall.Kill(-cmd.Process.Pid, syscall.SIGKILL)
		<-done
		// a hang: violation of "bounded time" only if it is a crash-type replay
		return true, false, buf.String() + "\n[replay exceeded " + timeout.String() + "]"
	}
}

// journalToReplay converts a crash journal into a replay file for the generic crash check.
func journalToReplay(journal, property string) ([]byte, error) {
	b, err := os.ReadFile(journal)
	if err != nil || len(b) < 11 {
		return nil, fmt.Errorf("no journal")
	}
	n, err := strconv.Atoi(strings.TrimSpace(string(b[:10])))
	if err != nil || 11+n > len(b) {
		return nil, fmt.Errorf("bad journal")
	}
	parts := strings.SplitN(string(b[11:11+n]), "\x00", 4)
	if len(parts) != 4 {
		return nil, fmt.Errorf("bad journal record")
	}
	c := map[string]interface{}{
		"property": property, "check": "Crash", "path": parts[2], "doc_text": parts[3],
		"strs":       []string{parts[0], parts[1]},
		"use_number": strings.Contains(parts[1], "usenumber=true"),
		"funcs":      strings.Contains(parts[1], "funcs=true"),
		"accessor":   strings.Contains(parts[1], "accessor=true"),
	}
	if !utf8.ValidString(parts[2]) {
		c["path_raw"] = []byte(parts[2])
	}
	return json.MarshalIndent(c, "", " ")
}

func saveReplay(property string, content []byte) string {
	sum := sha256.Sum256(content)
	name := fmt.Sprintf("%s-%x.json", property, sum[:5])
	dir := filepath.Join(verifDir, "replays")
	_ = os.MkdirAll(dir, 0o755)
	p := filepath.Join(dir, name)
	_ = os.WriteFile(p, content, 0o644)
	return p
}

func main() {
	property := flag.String("property", "", "property id (C01..C20)")
	tier := flag.String("tier", "quick", "quick | thorough")
	seedFlag := flag.Int64("seed", -1, "VERIF_SEED override")
	replay := flag.String("replay", "", "replay one saved case")
	list := flag.Bool("list", false, "list properties and checks")
	scale := flag.Float64("scale", 1, "multiply case counts (development)")
	flag.Parse()
	if v := os.Getenv("VERIF_DIR"); v != "" {
		verifDir = v
	}
	if t := os.Getenv("VERIF_TIER"); t != "" && !isFlagSet("tier") {
		*tier = t
	}
	seed := int64(1)
	if s := os.Getenv("VERIF_SEED"); s != "" {
		if v, err := strconv.ParseInt(s, 10, 64); err == nil {
			seed = v
		}
	}
	if *seedFlag >= 0 {
		seed = *seedFlag
	}
	if seed < 0 {
		seed = -seed
	}

	if *list {
		ids := make([]string, 0, len(properties))
		for id := range properties {
			ids = append(ids, id)
		}
		sort.Strings(ids)
		for _, id := range ids {
			fmt.Println(id, properties[id].Title)
			for _, cs := range properties[id].Checks {
				fmt.Printf("   %-28s quick=%d thorough=%d shards=%d race=%v\n", cs.Test, cs.Quick, cs.Thorough, cs.Shards, cs.Race)
			}
		}
		return
	}

	buildDir := filepath.Join(verifDir, ".build")
	_ = os.MkdirAll(buildDir, 0o755)

	if *replay != "" {
		os.Exit(doReplay(buildDir, *replay))
	}

	ps, ok := properties[*property]
	if !ok {
		fatal2("unknown property %q", *property)
	}
	if *tier != "quick" && *tier != "thorough" {
		fatal2("unknown tier %q", *tier)
	}
	start := time.Now()
	workDir := filepath.Join(buildDir, "run-"+*property+"-"+*tier)
	_ = os.RemoveAll(workDir)
	_ = os.MkdirAll(workDir, 0o755)

	// 1. build (always from /repo's current working tree; the Go build cache makes an unchanged tree cheap)
	needRace, needPlain := false, false
	for _, cs := range ps.Checks {
		if cs.Race {
			needRace = true
		} else {
			needPlain = true
		}
	}
	bin := filepath.Join(workDir, "props.test")
	binRace := filepath.Join(workDir, "props.race.test")
	if needPlain || true {
		if err := buildBinary(bin, false); err != nil {
			fatal2("%v", err)
		}
	}
	if needRace {
		if err := buildBinary(binRace, true); err != nil {
			fatal2("%v", err)
		}
	}

	// 2. run shards
	type job struct {
		cs     *checkSpec
		shard  int
		checks int
	}
	var jobs []job
	var specs []*checkSpec
	var fuzzSpecs []*checkSpec
	for i := range ps.Checks {
		cs := &ps.Checks[i]
		if *tier == "quick" && cs.ThoroughOnly {
			continue
		}
		if cs.Fuzz != "" {
			fuzzSpecs = append(fuzzSpecs, cs)
			continue
		}
		specs = append(specs, cs)
		n := cs.Quick
		if *tier == "thorough" {
			n = cs.Thorough
		}
		n = int(float64(n) * *scale)
		if n < 1 {
			n = 1
		}
		cs.requested = n
		for s := 0; s < cs.shards(*tier); s++ {
			jobs = append(jobs, job{cs, s, n})
		}
	}
	timeout := 20 * time.Minute
	if *tier == "thorough" {
		timeout = 90 * time.Minute
	}
	results := make([]shardResult, len(jobs))
	sem := make(chan struct{}, 16)
	var wg sync.WaitGroup
	for i, j := range jobs {
		wg.Add(1)
		go func(i int, j job) {
			defer wg.Done()
			sem <- struct{}{}
			defer func() { <-sem }()
			b := bin
			if j.cs.Race {
				b = binRace
			}
			results[i] = runShard(b, j.cs, j.shard, j.checks, seed, *tier, workDir, timeout)
		}(i, j)
	}
	wg.Wait()

	// 2b. native fuzz campaigns (thorough tier), one after the other, all cores each
	var fuzzResults []fuzzResult
	for _, cs := range fuzzSpecs {
		fuzzResults = append(fuzzResults, runFuzz(cs, workDir, bin))
	}

	// 3. classify
	violations := 0
	inconclusive := 0
	transient := 0
	hangConfirmed := false
	extraFailures := 0
	var lines []string
	known := readKnownFindings()
	knownHit := map[string]bool{}
	requested := int64(0)
	passed := int64(0)
	seenReplay := map[string]bool{}
	for _, r := range results {
		b := bin
		if r.check.Race {
			b = binRace
		}
		if r.check.Rapid {
			requested += int64(jobChecks(jobs, r))
			passed += int64(r.passed)
		}
		switch {
		case r.timedOut:
			inconclusive++
			lines = append(lines, fmt.Sprintf("INCONCLUSIVE: %s shard %d exceeded %s", r.check.Test, r.shard, timeout))
		case r.exit == 0:
			if r.check.Rapid && r.passed < jobChecks(jobs, r) {
				inconclusive++
				lines = append(lines, fmt.Sprintf("INCONCLUSIVE: %s shard %d: rapid passed %d of %d requested cases", r.check.Test, r.shard, r.passed, jobChecks(jobs, r)))
			}
		default:
			var content []byte
			if strings.Contains(r.log, "HARNESS-ERROR") {
				inconclusive++
				lines = append(lines, fmt.Sprintf("INCONCLUSIVE: %s shard %d: harness error; log %s", r.check.Test, r.shard, filepath.Join(workDir, fmt.Sprintf("%s.%d.log", r.check.Test, r.shard))))
				continue
			}
			if fb, err := os.ReadFile(r.failFile); err == nil && strings.Contains(r.log, "--- FAIL") && !crashed(r.log) {
				content = fb
			} else if crashed(r.log) || r.exit == 66 || r.exit == 3 {
				if r.exit == 66 || strings.Contains(r.log, "DATA RACE") {
					// race reports carry their scenario in the fail file if the check wrote one
					if fb, err := os.ReadFile(r.failFile); err == nil {
						content = fb
					}
				}
				if content == nil {
					if pb, err := os.ReadFile(r.failFile + ".pending"); err == nil {
						content = pb
					}
				}
				if content == nil {
					jb, err := journalToReplay(r.journal, *property)
					if err != nil {
						inconclusive++
						lines = append(lines, fmt.Sprintf("INCONCLUSIVE: %s shard %d died (exit %d) without a usable journal; log %s", r.check.Test, r.shard, r.exit, filepath.Join(workDir, fmt.Sprintf("%s.%d.log", r.check.Test, r.shard))))
						continue
					}
					content = jb
				}
			} else if strings.Contains(r.log, "HARNESS-ERROR") || strings.Contains(r.log, "harness:") && !strings.Contains(r.log, "property "+*property+" violated") {
				inconclusive++
				lines = append(lines, fmt.Sprintf("INCONCLUSIVE: %s shard %d: harness error (exit %d); log %s", r.check.Test, r.shard, r.exit, filepath.Join(workDir, fmt.Sprintf("%s.%d.log", r.check.Test, r.shard))))
				continue
			} else if fb, err := os.ReadFile(r.failFile); err == nil {
				content = fb
			} else {
				inconclusive++
				lines = append(lines, fmt.Sprintf("INCONCLUSIVE: %s shard %d failed (exit %d) without a saved case; log %s", r.check.Test, r.shard, r.exit, filepath.Join(workDir, fmt.Sprintf("%s.%d.log", r.check.Test, r.shard))))
				continue
			}
			// known finding?
			if kf := matchKnown(known, content, *property); kf != nil {
				knownHit[kf.id] = true
				continue
			}
			path := saveReplay(*property, content)
			if seenReplay[path] {
				continue
			}
			seenReplay[path] = true
			if violations >= 3 || (r.exit == 3 && hangConfirmed) {
				// enough confirmed reproductions for one run; further failing shards are listed, not replayed
				// (one confirmed hang is enough: every replay of a hang costs its full time limit)
				_ = os.Remove(path)
				extraFailures++
				continue
			}
			// confirm in a fresh process (several attempts for schedule-dependent checks)
			attempts := 2
			if r.check.Race || r.check.Flaky {
				attempts = 20
			}
			confirmed := false
			if report := raceReport(r.log); report != "" {
				// A report of Go's race detector is itself the proof (it has no false positives):
				// two unsynchronised conflicting accesses did occur. It is attributed to the
				// library only if a library frame takes part; the scenario file is the replay
				// (re-running it may need many attempts to hit the same window).
				if strings.Contains(report, "github.com/AsaiYusuke/jsonpath.") {
					confirmed = true
					attempts = 0
					var obj map[string]interface{}
					if json.Unmarshal(content, &obj) == nil {
						obj["violation"] = "data race reported by the race detector"
						obj["race_report"] = report
						if nb, err := json.MarshalIndent(obj, "", " "); err == nil {
							_ = os.WriteFile(path, nb, 0o644)
						}
					}
				}
			}
			replayLimit := 2 * time.Minute
			if r.exit == 3 {
				replayLimit = 60 * time.Second // a hang: the replay, alone in its process, must exceed this (twice)
				attempts = 2
				if r.check.Race || r.check.Flaky {
					attempts = 4 // a schedule-dependent deadlock need not form on every run
				}
			}
			hangs := 0
			for a := 0; a < attempts && !confirmed; a++ {
				bad, inc, out := replayFile(b, path, replayLimit)
				if r.exit == 3 {
					// bounded time: only a replay that again does not finish counts, and it must do so twice
					// (alone in its process a self-deadlock is noticed by the Go runtime, which ends the process
					// with "all goroutines are asleep - deadlock!": the call can never return)
					if bad && (strings.Contains(out, "[replay exceeded") || strings.Contains(out, "all goroutines are asleep - deadlock!")) {
						hangs++
						confirmed = hangs >= 2
					}
					continue
				}
				if inc {
					break
				}
				confirmed = bad
			}
			if !confirmed && r.exit != 3 {
				// The shrunk case does not fail on its own: the failure may depend on what the process
				// evaluated before. The first failing case of the shard was saved with the cases before it.
				if fb, err := os.ReadFile(r.failFile + ".first"); err == nil {
					if kf := matchKnown(known, fb, *property); kf == nil {
						fpath := saveReplay(*property, fb)
						for a := 0; a < 2 && !confirmed; a++ {
							bad, inc, _ := replayFile(b, fpath, replayLimit)
							if inc {
								break
							}
							confirmed = bad
						}
						if confirmed {
							_ = os.Remove(path)
							path = fpath
						} else {
							_ = os.Remove(fpath)
						}
					}
				}
			}
			if confirmed && r.exit == 3 {
				hangConfirmed = true
			}
			if confirmed {
				violations++
				lines = append(lines, fmt.Sprintf("VIOLATION property=%s replay=%s", *property, path))
				lines = append(lines, "  "+firstViolationLine(r.log))
			} else {
				_ = os.Remove(path)
				// Not reproducible from the saved case. Before calling the run inconclusive, the shard is run
				// again from the start (same seed, so the same cases): a failure that was an accident of the
				// moment (a starved machine tripping the hang detector, say) does not come back, one that
				// belongs to the tree does.
				logPath := filepath.Join(workDir, fmt.Sprintf("%s.%d.log", r.check.Test, r.shard))
				firstLog := filepath.Join(workDir, fmt.Sprintf("%s.%d.first-attempt.log", r.check.Test, r.shard))
				_ = os.WriteFile(firstLog, []byte(r.log), 0o644)
				rr := runShard(b, r.check, r.shard, jobChecks(jobs, r), seed, *tier, workDir, timeout)
				if rr.exit == 0 && !rr.timedOut && (!r.check.Rapid || rr.passed >= jobChecks(jobs, r)) {
					transient++
					if r.check.Rapid {
						passed += int64(rr.passed - r.passed)
					}
					lines = append(lines, fmt.Sprintf("NOTE: %s shard %d failed once in a way that did not reproduce from its saved case and passed completely when run again (first attempt: %s)", r.check.Test, r.shard, firstLog))
				} else {
					inconclusive++
					lines = append(lines, fmt.Sprintf("INCONCLUSIVE: %s shard %d reported a failure that did not reproduce from its replay file, and failed again when the shard was run again; log %s", r.check.Test, r.shard, logPath))
				}
			}
		}
	}

	fuzzEvidence := []map[string]interface{}{}
	for _, fr := range fuzzResults {
		fuzzEvidence = append(fuzzEvidence, map[string]interface{}{"target": fr.target, "seconds": fr.seconds, "execs": fr.execs, "new_interesting": fr.interesting, "exit": fr.exit})
		if fr.exit == 0 {
			continue
		}
		if fr.content == nil {
			inconclusive++
			lines = append(lines, fmt.Sprintf("INCONCLUSIVE: fuzz target %s failed without a usable input; log %s", fr.target, fr.logFile))
			continue
		}
		var cc struct {
			Property string `json:"property"`
		}
		_ = json.Unmarshal(fr.content, &cc)
		owner := cc.Property
		if owner == "" {
			owner = *property
		}
		path := saveReplay(owner, fr.content)
		confirmed := false
		for a := 0; a < 2 && !confirmed; a++ {
			bad, inc, _ := replayFile(bin, path, 2*time.Minute)
			if inc {
				break
			}
			confirmed = bad
		}
		if confirmed && owner == *property {
			violations++
			lines = append(lines, fmt.Sprintf("VIOLATION property=%s replay=%s", owner, path))
			lines = append(lines, "  found by native fuzz target "+fr.target)
		} else if confirmed {
			// the shared target also carries the oracle of a sibling property: not this check's verdict
			lines = append(lines, fmt.Sprintf("NOTE: fuzz target %s found a violation of %s (replay %s); run that property's check", fr.target, owner, path))
		} else {
			inconclusive++
			_ = os.Remove(path)
			lines = append(lines, fmt.Sprintf("INCONCLUSIVE: fuzz target %s reported a failure that did not reproduce; log %s", fr.target, fr.logFile))
		}
	}

	if extraFailures > 0 {
		lines = append(lines, fmt.Sprintf("NOTE: %d more shard(s) reported failures that were not replayed (3 violations already confirmed)", extraFailures))
	}
	// known findings of this property: replay each; still failing -> KNOWN-FINDING line
	for _, kf := range known {
		if kf.property != *property {
			continue
		}
		bad, _, _ := replayFile(bin, filepath.Join(verifDir, kf.replay), 2*time.Minute)
		if bad || knownHit[kf.id] {
			lines = append(lines, fmt.Sprintf("KNOWN-FINDING: property=%s %s (%s)", kf.property, kf.text, kf.id))
		}
	}

	// 4. evidence
	m := mergeStats(workDir, specs)
	for _, fl := range ps.Floors {
		if inconclusive > 0 || violations > 0 {
			break
		}
		tot := m.classes[fl.Check][fl.Denominator]
		num := m.classes[fl.Check][fl.Class]
		if fl.Denominator == "" {
			tot = m.casesBy[fl.Check]
		}
		if tot == 0 || float64(num)/float64(tot) < fl.Min {
			inconclusive++
			lines = append(lines, fmt.Sprintf("INCONCLUSIVE: generator floor missed: %s %s = %d / %d < %.3f", fl.Check, fl.Class, num, tot, fl.Min))
		}
	}
	wall := time.Since(start).Seconds()
	ev := map[string]interface{}{
		"property_id": *property,
		"tier":        *tier,
		"seed":        seed,
		"level":       "exploration",
		"wall_s":      wall,
		"violations":  violations,
		"assumptions": ps.Assumptions,
		"coverage": map[string]interface{}{
			"evaluations":                     m.evaluations,
			"cases_generated":                 m.cases,
			"nontrivial_total":                m.nontrivial,
			"distinct_nontrivial":             m.distinct,
			"distinct_count_capped_per_shard": m.capped,
			"rule":                            strings.Join(m.rules, " || "),
			"samples":                         m.samples,
			"classes":                         m.classes,
			"exhaustive_subdomains":           keys(m.exhaustive),
			"exhaustive":                      false,
			"shards":                          len(jobs),
			"requested_rapid_cases":           requested,
			"rapid_passed":                    passed,
			"inconclusive_events":             inconclusive,
			"transient_shard_failures":        transient,
			"known_findings_hit":              keysB(knownHit),
			"fuzz":                            fuzzEvidence,
		},
	}
	if len(m.samples) == 0 {
		ev["coverage"].(map[string]interface{})["samples"] = []interface{}{"no non-trivial case was sampled"}
	}
	eb, _ := json.MarshalIndent(ev, "", " ")
	_ = os.MkdirAll(filepath.Join(verifDir, "evidence"), 0o755)
	_ = os.WriteFile(filepath.Join(verifDir, "evidence", *property+".json"), eb, 0o644)

	for _, l := range lines {
		fmt.Println(l)
	}
	fmt.Printf("%s %s seed=%d: cases=%d evaluations=%d distinct_nontrivial=%d violations=%d inconclusive=%d wall=%.1fs\n",
		*property, *tier, seed, m.cases, m.evaluations, m.distinct, violations, inconclusive, wall)
	switch {
	case violations > 0:
		os.Exit(1)
	case inconclusive > 0:
		os.Exit(2)
	}
}

type fuzzResult struct {
	target      string
	seconds     int
	execs       int64
	interesting int64
	exit        int
	content     []byte
	logFile     string
}

var fuzzStatRe = regexp.MustCompile(`execs: (\d+) .*new interesting: (\d+)`)

// runFuzz runs one native fuzz campaign (all cores) and extracts a failing input, if any.
func runFuzz(cs *checkSpec, workDir, bin string) fuzzResult {
	if v, err := strconv.Atoi(os.Getenv("VERIF_FUZZ_SECONDS")); err == nil && v > 0 {
		cs.FuzzSeconds = v
	}
	fr := fuzzResult{target: cs.Fuzz, seconds: cs.FuzzSeconds, logFile: filepath.Join(workDir, cs.Fuzz+".fuzz.log")}
	propsDir := filepath.Join(verifDir, "harness", "props")
	crashDir := filepath.Join(propsDir, "testdata", "fuzz", cs.Fuzz)
	_ = os.RemoveAll(crashDir)
	failFile := filepath.Join(workDir, cs.Fuzz+".fail.json")
	_ = os.Remove(failFile)
	fuzzArgs := append([]string{"test", "-vet=off"}, altModfile()...)
	fuzzArgs = append(fuzzArgs, "-run", "^$", "-fuzz", "^"+cs.Fuzz+"$", "-fuzztime", fmt.Sprintf("%ds", cs.FuzzSeconds),
		"-test.fuzzcachedir", filepath.Join(verifDir, ".build", "fuzzcache"), ".")
	cmd := exec.Command("go", fuzzArgs...)
	cmd.Dir = propsDir
	cmd.Env = env("VERIF_FAIL_OUT="+failFile, "VERIF_REPO="+repoDir(), "VERIF_BIN="+bin, "VERIF_TIER=thorough", "VERIF_STATS_DIR=", "VERIF_JOURNAL=")
	var buf bytes.Buffer
	cmd.Stdout, cmd.Stderr = &buf, &buf
	cmd.SysProcAttr = &syscall.SysProcAttr{Setpgid: true}
	done := make(chan error, 1)
	if err := cmd.Start(); err != nil {
		fr.exit = 2
		return fr
	}
	go func() { done <- cmd.Wait() }()
	select {
	case err := <-done:
		if err != nil {
			fr.exit = 1
		}
	case <-time.After(time.Duration(cs.FuzzSeconds)*time.Second + 10*time.Minute):
		_ = syscall.Kill(-cmd.Process.Pid, syscall.SIGKILL)
		<-done
		fr.exit = 2
	}
	out := buf.String()
	_ = os.WriteFile(fr.logFile, buf.Bytes(), 0o644)
	for _, m := range fuzzStatRe.FindAllStringSubmatch(out, -1) {
		fr.execs, _ = strconv.ParseInt(m[1], 10, 64)
		fr.interesting, _ = strconv.ParseInt(m[2], 10, 64)
	}
	if fr.exit == 1 {
		if b, err := os.ReadFile(failFile); err == nil {
			fr.content = b
		} else if files, _ := filepath.Glob(filepath.Join(crashDir, "*")); len(files) > 0 {
			fr.content = crasherToReplay(files[0])
		}
	}
	_ = os.RemoveAll(crashDir)
	return fr
}

// crasherToReplay converts a Go fuzz corpus file into a generic "Crash" replay case.
func crasherToReplay(file string) []byte {
	b, err := os.ReadFile(file)
	if err != nil {
		return nil
	}
	var strs []string
	flags := 0
	for _, line := range strings.Split(string(b), "\n")[1:] {
		i, j := strings.Index(line, "("), strings.LastIndex(line, ")")
		if i < 0 || j <= i {
			continue
		}
		lit := line[i+1 : j]
		switch {
		case strings.HasPrefix(line, "byte("):
			if r, _, _, err := strconv.UnquoteChar(strings.Trim(lit, "'"), '\''); err == nil {
				flags = int(r)
			}
		default:
			if s, err := strconv.Unquote(lit); err == nil {
				strs = append(strs, s)
			}
		}
	}
	if len(strs) == 0 {
		return nil
	}
	c := map[string]interface{}{"check": "Crash", "path": strs[0], "funcs": flags&1 == 1 || len(strs) > 1, "accessor": len(strs) == 1 && flags&2 == 2,
		"use_number": len(strs) > 1 && flags&1 == 1, "strs": []string{"native-fuzz crasher " + filepath.Base(file)}}
	if !utf8.ValidString(strs[0]) {
		c["path_raw"] = []byte(strs[0])
	}
	if len(strs) > 1 {
		c["doc_text"] = strs[1]
	}
	out, _ := json.MarshalIndent(c, "", " ")
	return out
}

func jobChecks(jobs interface{}, r shardResult) int {
	// the requested count is the same for every shard of a check
	return r.check.requested
}

// raceReport extracts the first race detector report from a log.
func raceReport(log string) string {
	i := strings.Index(log, "WARNING: DATA RACE")
	if i < 0 {
		return ""
	}
	rest := log[i:]
	if j := strings.Index(rest[18:], "=================="); j >= 0 {
		rest = rest[:18+j]
	}
	if len(rest) > 6000 {
		rest = rest[:6000]
	}
	return rest
}

func crashed(log string) bool {
	return strings.Contains(log, "HANG-DETECTED") || strings.Contains(log, "fatal error:") || strings.Contains(log, "\npanic: ") && !strings.Contains(log, "--- FAIL") ||
		strings.Contains(log, "signal: killed") || strings.Contains(log, "goroutine stack exceeds") || strings.Contains(log, "WARNING: DATA RACE")
}

func firstViolationLine(log string) string {
	for _, l := range strings.Split(log, "\n") {
		if strings.Contains(l, "violated") || strings.Contains(l, "fatal error") || strings.Contains(l, "DATA RACE") {
			l = strings.TrimSpace(l)
			if len(l) > 300 {
				l = l[:300]
			}
			return l
		}
	}
	return ""
}

func matchKnown(known []knownFinding, content []byte, property string) *knownFinding {
	if len(known) == 0 {
		return nil
	}
	var c struct {
		Path string `json:"path"`
		Note string `json:"violation"`
	}
	_ = json.Unmarshal(content, &c)
	for i := range known {
		if sigMatches(known[i].signature, c.Path, string(content)) {
			return &known[i]
		}
	}
	return nil
}

func keys(m map[string]bool) []string {
	out := []string{}
	for k := range m {
		out = append(out, k)
	}
	sort.Strings(out)
	return out
}
func keysB(m map[string]bool) []string { return keys(m) }

func isFlagSet(name string) bool {
	set := false
	flag.Visit(func(f *flag.Flag) {
		if f.Name == name {
			set = true
		}
	})
	return set
}

func doReplay(buildDir, file string) int {
	abs, _ := filepath.Abs(file)
	b, err := os.ReadFile(abs)
	if err != nil {
		fmt.Println("INCONCLUSIVE: cannot read", file)
		return 2
	}
	var c struct {
		Property string `json:"property"`
		Check    string `json:"check"`
	}
	_ = json.Unmarshal(b, &c)
	race := false
	if ps, ok := properties[c.Property]; ok {
		for _, cs := range ps.Checks {
			if cs.Test == c.Check && cs.Race {
				race = true
			}
		}
	}
	dir := filepath.Join(buildDir, "replay")
	_ = os.MkdirAll(dir, 0o755)
	bin := filepath.Join(dir, "props.test")
	if race {
		bin = filepath.Join(dir, "props.race.test")
	}
	if err := buildBinary(bin, race); err != nil {
		fmt.Println("INCONCLUSIVE:", err)
		return 2
	}
	bad, inc, out := replayFile(bin, abs, 5*time.Minute)
	fmt.Println(out)
	switch {
	case inc:
		return 2
	case bad:
		fmt.Printf("VIOLATION property=%s replay=%s\n", c.Property, abs)
		return 1
	}
	return 0
}
