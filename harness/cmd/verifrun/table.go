package main

import "strings"

type checkSpec struct {
	Test           string
	Quick          int // rapid cases per shard, quick tier
	Thorough       int // rapid cases per shard, thorough tier
	Shards         int // shard processes (quick); 0 = 16
	ThoroughShards int // 0 = same as Shards
	Race           bool
	Flaky          bool // failure depends on scheduler / map seed: confirm with more replay attempts
	Rapid          bool // driven by rapid.Check (passed-count is verified)
	ThoroughOnly   bool
	Fuzz           string // native fuzz target (go test -fuzz); thorough tier only
	FuzzSeconds    int
	requested      int
}

func (c *checkSpec) shards(tier string) int {
	n := c.Shards
	if tier == "thorough" && c.ThoroughShards > 0 {
		n = c.ThoroughShards
	}
	if n == 0 {
		n = 16
	}
	return n
}

type floor struct {
	Check, Class, Denominator string
	Min                       float64
}

type propSpec struct {
	Title       string
	Checks      []checkSpec
	Assumptions []string
	Floors      []floor
}

var commonAssumptions = []string{
	"observed through the public API only (Parse, Retrieve, Config, Accessor, exported error types); no source hooks",
	"exploration, not proof: the property held on every generated case; generators and bounds are described in coverage.rule and DESIGN.md",
	"rapid v1.3.0 is the only source of randomness; each shard's seed is a function of VERIF_SEED, shard number and check name",
}

func assume(extra ...string) []string {
	return append(append([]string{}, commonAssumptions...), extra...)
}

var specAssumption = "SPEC (harness/spec) is an independent interpreter written from the property statements and README; it is validated against the repository's own 1225 table cases (TestSpecAgreesWithSuite)"

// sigMatches implements the case-shape predicates of known_findings.txt signatures.
func sigMatches(signature, path, content string) bool {
	switch signature {
	case "":
		return false
	}
	if strings.HasPrefix(signature, "path-contains:") {
		return strings.Contains(path, strings.TrimPrefix(signature, "path-contains:"))
	}
	return false
}

var opaqueTypes = []string{"struct {}", "gen.opaqueStruct", "*gen.opaqueStruct", "map[string]int", "map[string]string", "gen.namedMap", "[]int", "[]string", "gen.namedSlice", "[2]int", "int", "int64", "uint8", "float32", "complex128", "func()", "chan int", "[]uint8", "*errors.errorString", "time.Duration", "map[interface {}]interface {}"}

func opaqueFloors() []floor {
	out := []floor{{Check: "TestC20_Opaque", Class: "nontrivial", Min: 0.5}}
	for _, t := range opaqueTypes {
		out = append(out, floor{Check: "TestC20_Opaque", Class: "touched:" + t, Min: 0.0005})
	}
	return out
}

var pegiAssumption = "PEGI trusts /repo/jsonpath.peg (9 KB) and README as the published grammar; it implements the PEG meta-syntax subset that file uses and is validated against all 265 syntax-error cases the suite pins"

var properties = map[string]*propSpec{
	"C02": {
		Title: "Parse is total: any string yields a function or a documented syntax-check error",
		Checks: []checkSpec{
			{Test: "TestC02_Total", Quick: 60000, Thorough: 1000000, Rapid: true},
			{Test: "TestC02_Reduced", Quick: 1, Thorough: 1},
			{Test: "FuzzParse", Fuzz: "FuzzParse", FuzzSeconds: 150, ThoroughOnly: true},
		},
		Assumptions: assume("'bounded time' is decided as: no case exceeds the 30 s hang detector", "process deaths (fatal stack overflow) are attributed through a per-shard journal and confirmed by replay in a fresh process"),
		Floors: []floor{
			{Check: "TestC02_Total", Class: "outcome:accepted", Min: 0.01},
			{Check: "TestC02_Total", Class: "outcome:ErrorInvalidSyntax", Min: 0.01},
			{Check: "TestC02_Total", Class: "outcome:ErrorInvalidArgument", Min: 0.005},
			{Check: "TestC02_Total", Class: "outcome:ErrorFunctionNotFound", Min: 0.005},
			{Check: "TestC02_Total", Class: "outcome:ErrorNotSupported", Min: 0.0005},
		},
	},
	"C03": {
		Title: "Evaluation is total: results are non-empty or a documented runtime error",
		Checks: []checkSpec{
			{Test: "TestC03_Total", Quick: 50000, Thorough: 500000, Rapid: true},
			{Test: "TestC03_Reduced", Quick: 1, Thorough: 1},
			{Test: "FuzzRetrieve", Fuzz: "FuzzRetrieve", FuzzSeconds: 150, ThoroughOnly: true},
		},
		Assumptions: assume(specAssumption, "'bounded time' is decided as: no case exceeds the 30 s hang detector"),
		Floors: []floor{
			{Check: "TestC03_Total", Class: "outcome:values", Min: 0.03},
			{Check: "TestC03_Total", Class: "outcome:ErrorMemberNotExist", Min: 0.03},
			{Check: "TestC03_Total", Class: "outcome:ErrorTypeUnmatched", Min: 0.03},
			{Check: "TestC03_Total", Class: "outcome:ErrorFunctionFailed", Min: 0.005},
		},
	},
	"C04": {
		Title: "Retrieval never modifies the source document",
		Checks: []checkSpec{
			{Test: "TestC04_Snapshot", Quick: 24000, Thorough: 250000, Rapid: true},
			{Test: "TestC04_SharedDocRace", Quick: 150, Thorough: 3000, Rapid: true, Race: true, Flaky: true, Shards: 8},
		},
		Assumptions: assume("writes outside the value graph reachable from the source value are not observable", "the race detector reports only conflicting accesses that occur in the run"),
		Floors: []floor{
			{Check: "TestC04_Snapshot", Class: "nontrivial", Min: 0.2},
		},
	},
	"C05": {
		Title: "A parsed function is pure: each call depends only on its argument",
		Checks: []checkSpec{
			{Test: "TestC05_History", Quick: 8000, Thorough: 80000, Rapid: true},
		},
		Assumptions: assume(specAssumption, "histories are single-goroutine (concurrency is C06) and bounded at 8 / 16 operations"),
		Floors: []floor{
			{Check: "TestC05_History", Class: "nontrivial", Min: 0.2},
		},
	},
	"C06": {
		Title: "Parse and parsed functions are safe for concurrent use",
		Checks: []checkSpec{
			{Test: "TestC06_Concurrent", Quick: 25, Thorough: 700, Rapid: true, Race: true, Flaky: true, Shards: 12},
		},
		Assumptions: assume("the harness does not own the Go scheduler: the claim is 'no race and no wrong result in the generated concurrent workloads under the race detector', not 'for all interleavings'", "the race detector reports unsynchronised conflicting accesses that occur in the run; code no goroutine pair executed concurrently cannot be reported", "schedules are not a function of VERIF_SEED; failures are replayed as scenarios (up to 20 attempts), not as schedules"),
		Floors: []floor{
			{Check: "TestC06_Concurrent", Class: "nontrivial", Min: 0.5},
		},
	},
	"C07": {
		Title: "Result order is deterministic: sorted keys, index order, written order",
		Checks: []checkSpec{
			{Test: "TestC07_Order", Quick: 4000, Thorough: 50000, Rapid: true, Flaky: true},
		},
		Assumptions: assume(specAssumption, "detecting an unsorted traversal relies on Go's per-range map randomisation (the chance that 30 repetitions over >=3 keys all coincide with sorted order is < 1e-20); Go's map iteration seed is not a function of VERIF_SEED"),
		Floors: []floor{
			{Check: "TestC07_Order", Class: "nontrivial", Min: 0.4},
		},
	},
	"C08": {
		Title: "Steps compose: P followed by Q equals Q applied to each result of P",
		Checks: []checkSpec{
			{Test: "TestC08_Compose", Quick: 12000, Thorough: 180000, Rapid: true},
		},
		Assumptions: assume("relational oracle: three retrievals of the library are compared with each other; a defect hitting all three equally is C01's business"),
		Floors: []floor{
			{Check: "TestC08_Compose", Class: "nontrivial", Denominator: "split:checked", Min: 0.15},
		},
	},
	"C09": {
		Title: "Filter logic is Boolean algebra over members; comparisons obey their dualities",
		Checks: []checkSpec{
			{Test: "TestC09_Algebra", Quick: 15000, Thorough: 150000, Rapid: true},
			{Test: "TestC09_SharedFilter", Quick: 150, Thorough: 3000, Rapid: true, Race: true, Flaky: true, Shards: 6},
		},
		Assumptions: assume("relational oracle over the library's own atoms (what an atom selects is C10/C01's business); member identity is recovered from pairwise-distinct member values"),
		Floors: []floor{
			{Check: "TestC09_Algebra", Class: "nontrivial", Min: 0.25},
		},
	},
	"C10": {
		Title: "Comparisons are type-strict and numeric by value, whatever the number decoding",
		Checks: []checkSpec{
			{Test: "TestC10_Compare", Quick: 20000, Thorough: 400000, Rapid: true},
			{Test: "TestC10_SharedCompare", Quick: 120, Thorough: 2500, Rapid: true, Race: true, Flaky: true, Shards: 6},
		},
		Assumptions: assume(specAssumption, "when two paths are compared with ==, numbers are spelled the one way Go's shortest float formatting spells them (as the property stipulates)"),
		Floors: []floor{
			{Check: "TestC10_Compare", Class: "nontrivial", Min: 0.15},
		},
	},
	"C11": {
		Title: "Index and slice arithmetic is exact and total for every start/end/step/length",
		Checks: []checkSpec{
			{Test: "TestC11_Exhaustive", Quick: 1, Thorough: 1},
			{Test: "TestC11_Random", Quick: 30000, Thorough: 500000, Rapid: true},
			{Test: "TestC11_Chained", Quick: 20000, Thorough: 300000, Rapid: true, Shards: 8},
			{Test: "TestC11_SharedSlice", Quick: 150, Thorough: 3000, Rapid: true, Race: true, Flaky: true, Shards: 6},
		},
		Assumptions: assume("the slice oracle is spec.SliceIndices, pinned to CPython's slice semantics by a digest over 33775 combinations (spec/slice_test.go)", "integers outside Go's int are ErrorInvalidArgument at parse time and out of the property's domain"),
	},
	"C12": {
		Title: "Accessor mode changes only the wrapping of results, never what is selected",
		Checks: []checkSpec{
			{Test: "TestC12_Parity", Quick: 30000, Thorough: 300000, Rapid: true},
		},
		Assumptions: assume("relational oracle: the two modes are compared with each other (what is selected is C01's business)"),
		Floors: []floor{
			{Check: "TestC12_Parity", Class: "nontrivial", Min: 0.11},
			{Check: "TestC12_Parity", Class: "function-after-group-step", Min: 0.05},
		},
	},
	"C13": {
		Title: "Accessor.Set writes exactly the selected location; Get is live",
		Checks: []checkSpec{
			{Test: "TestC13_Set", Quick: 20000, Thorough: 200000, Rapid: true},
			{Test: "TestC13_SharedAccessors", Quick: 120, Thorough: 2500, Rapid: true, Race: true, Flaky: true, Shards: 6},
		},
		Assumptions: assume(specAssumption, "accessors whose ancestor location was overwritten are not checked afterwards (README: structure changes are the caller's concern)"),
		Floors: []floor{
			{Check: "TestC13_Set", Class: "nontrivial", Min: 0.08},
		},
	},
	"C14": {
		Title: "Functions see every selected value once, in order; aggregates see all of them",
		Checks: []checkSpec{
			{Test: "TestC14_Calls", Quick: 40000, Thorough: 400000, Rapid: true},
		},
		Assumptions: assume(specAssumption, "call counts of functions inside && / || filters are not pinned by the property (short-circuit is allowed) and are not asserted; a '$'-rooted operand function is only required to be called with the right argument (how often is not pinned)"),
		Floors: []floor{
			{Check: "TestC14_Calls", Class: "nontrivial", Min: 0.08},
		},
	},
	"C15": {
		Title: "Runtime errors name a real failing step: the deepest one, and the right kind",
		Checks: []checkSpec{
			{Test: "TestC15_Errors", Quick: 40000, Thorough: 250000, Rapid: true},
		},
		Assumptions: assume(specAssumption, "error text equality is modulo the spelling rules of DESIGN §3.3 (bare names after '..' and without '$', entries of a multi-name selector)"),
		Floors: []floor{
			{Check: "TestC15_Errors", Class: "nontrivial:depth>=2", Min: 0.15},
			{Check: "TestC15_Errors", Class: "nontrivial:multi-failure", Min: 0.08},
		},
	},
	"C18": {
		Title: "Equivalent spellings of a path behave identically",
		Checks: []checkSpec{
			{Test: "TestC18_Spellings", Quick: 15000, Thorough: 160000, Rapid: true},
		},
		Assumptions: assume(pegiAssumption, "relational oracle: spellings are compared with each other; the renderer's set of 'insignificant' variations is the list in the property statement"),
		Floors: []floor{
			{Check: "TestC18_Spellings", Class: "nontrivial", Min: 0.5},
		},
	},
	"C19": {
		Title: "Parse depends only on the path and the Config given to that call",
		Checks: []checkSpec{
			{Test: "TestC19_History", Quick: 3000, Thorough: 40000, Rapid: true},
			{Test: "TestC19_LongRun", Quick: 12000, Thorough: 150000, Rapid: true},
		},
		Assumptions: assume("the reference outcome of each (path, config) descriptor is its outcome as the first library call of a fresh process (one exec of the test binary per descriptor)"),
		Floors: []floor{
			{Check: "TestC19_History", Class: "nontrivial", Min: 0.4},
		},
	},
	"C20": {
		Title: "Values that are not decoded JSON are treated as opaque leaves, never crash",
		Checks: []checkSpec{
			{Test: "TestC20_Opaque", Quick: 30000, Thorough: 300000, Rapid: true},
		},
		Assumptions: assume(specAssumption, "cyclic containers are excluded (not in the property's list); reference-like opaque values are compared by identity"),
		Floors:      opaqueFloors(),
	},
	"C16": {
		Title: "Every object member is addressable; dot and bracket notations are equivalent",
		Checks: []checkSpec{
			{Test: "TestC16_Keys", Quick: 6000, Thorough: 60000, Rapid: true},
			{Test: "TestC16_Collide", Quick: 1, Thorough: 1, Shards: 2},
		},
		Assumptions: assume("keys are valid UTF-8 Go strings (what encoding/json produces); the oracle is a plain Go map lookup"),
		Floors: []floor{
			{Check: "TestC16_Keys", Class: "nontrivial", Min: 0.6},
		},
	},
	"C17": {
		Title: "The accepted language is the published grammar; syntax errors point at the spot",
		Checks: []checkSpec{
			{Test: "TestC17_Grammar", Quick: 30000, Thorough: 500000, Rapid: true},
			{Test: "TestC17_Reduced", Quick: 1, Thorough: 1},
			{Test: "FuzzParse", Fuzz: "FuzzParse", FuzzSeconds: 150, ThoroughOnly: true},
		},
		Assumptions: assume(pegiAssumption),
		Floors: []floor{
			{Check: "TestC17_Grammar", Class: "nontrivial:non-ascii-rejected", Min: 0.03},
		},
	},
	"C01": {
		Title: "Retrieval returns exactly the nodes the JSONPath selects, in document order",
		Checks: []checkSpec{
			{Test: "TestC01_Spec", Quick: 40000, Thorough: 400000, Rapid: true},
			{Test: "TestC01_Mutated", Quick: 25000, Thorough: 250000, Rapid: true, Shards: 8},
			{Test: "TestC01_SharedParsed", Quick: 150, Thorough: 3000, Rapid: true, Race: true, Flaky: true, Shards: 6},
			{Test: "FuzzSpec", Fuzz: "FuzzSpec", FuzzSeconds: 150, ThoroughOnly: true},
		},
		Assumptions: assume(specAssumption),
		Floors: []floor{
			{Check: "TestC01_Spec", Class: "nontrivial:>=2results", Min: 0.06},
			{Check: "TestC01_Mutated", Class: "nontrivial", Min: 0.05},
			{Check: "TestC01_SharedParsed", Class: "nontrivial", Min: 0.1},
		},
	},
}
