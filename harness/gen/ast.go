// Package gen holds the path AST, its renderer and the rapid generators for
// paths, documents, keys and configs (DESIGN.md §3.2).
package gen

// RootKind says how a path starts.
type RootKind int

const (
	RootDollar  RootKind = iota // "$"
	RootAt                      // "@" (filter operands only)
	RootOmitted                 // top-level path without "$": first step is a dot-less name, "*" or a bracket
)

// StepKind enumerates the step kinds of the grammar.
type StepKind int

const (
	KName StepKind = iota
	KMulti
	KWild
	KIndex
	KSlice
	KUnion
	KFilter
	KFunc
)

var kindNames = [...]string{"name", "multi", "wild", "index", "slice", "union", "filter", "func"}

func (k StepKind) String() string { return kindNames[k] }

// Notation of a name / wildcard.
type Notation int

const (
	NDot Notation = iota // .name  .*
	NSQ                  // ['name']  [*]
	NDQ                  // ["name"]
)

// MultiEntry is one entry of a multi-name selector ['a',"b",*].
type MultiEntry struct {
	Wild bool     `json:"wild,omitempty"`
	Key  string   `json:"key,omitempty"`
	Q    Notation `json:"q,omitempty"` // NSQ or NDQ
}

// Sub is one subscript of a union qualifier.
type Sub struct {
	Kind  StepKind `json:"kind"` // KIndex, KSlice, KWild
	N     int      `json:"n,omitempty"`
	Start *int     `json:"s,omitempty"`
	End   *int     `json:"e,omitempty"`
	Step  *int     `json:"t,omitempty"`
	// TwoPart: slice written with one colon only ("s:e"); Step must be nil then.
	TwoPart bool `json:"two,omitempty"`
}

// Step is one step of a path. Rec marks a step that is written after "..".
type Step struct {
	Kind StepKind `json:"kind"`
	Rec  bool     `json:"rec,omitempty"`

	Key string       `json:"key,omitempty"` // KName
	Not Notation     `json:"not,omitempty"` // KName, KWild (NDot or NSQ meaning bracket)
	Ent []MultiEntry `json:"ent,omitempty"` // KMulti
	Sub []Sub        `json:"sub,omitempty"` // KIndex (1 index), KSlice (1 slice), KUnion (>=2)
	Q   *Query       `json:"q,omitempty"`   // KFilter
	Fn  string       `json:"fn,omitempty"`  // KFunc: function name
	Agg bool         `json:"agg,omitempty"` // KFunc: aggregate (decided by the config)
}

// Path is a whole JSONPath (top level or filter operand).
type Path struct {
	Root  RootKind `json:"root"`
	Steps []Step   `json:"steps,omitempty"`
}

// QueryKind enumerates filter query nodes.
type QueryKind int

const (
	QOr QueryKind = iota
	QAnd
	QParen
	QExists
	QCmp
	QRegex
)

// Query is a filter expression tree.
type Query struct {
	Kind QueryKind `json:"kind"`
	L    *Query    `json:"l,omitempty"` // QOr, QAnd, QParen (L only)
	R    *Query    `json:"r,omitempty"`
	Not  bool      `json:"neg,omitempty"` // QExists
	P    *Path     `json:"p,omitempty"`   // QExists, QRegex
	Op   string    `json:"op,omitempty"`  // QCmp: == != < <= > >=
	A    *Operand  `json:"a,omitempty"`   // QCmp left
	B    *Operand  `json:"b,omitempty"`   // QCmp right
	Re   string    `json:"re,omitempty"`  // QRegex: regexp source (Go syntax, "/" not yet escaped)
}

// LitKind enumerates literal kinds.
type LitKind int

const (
	LNum LitKind = iota
	LStr
	LBool
	LNull
)

// Operand of a comparison: a literal or a path.
type Operand struct {
	IsLit bool    `json:"lit,omitempty"`
	LK    LitKind `json:"lk,omitempty"`
	Num   string  `json:"num,omitempty"` // literal number text as written (valid for ParseFloat)
	Str   string  `json:"str,omitempty"`
	Bool  bool    `json:"bool,omitempty"`
	SQ    bool    `json:"sq,omitempty"` // string literal written with single quotes
	P     *Path   `json:"p,omitempty"`
}

// IsGroupStep reports whether a step makes the path multi-valued ("value group").
func (s *Step) IsGroupStep() bool {
	if s.Rec {
		return true
	}
	switch s.Kind {
	case KMulti, KWild, KSlice, KUnion, KFilter:
		return true
	}
	return false
}

// IsGroupPath reports whether the path is a value-group path in the sense of the README:
// there is a value-group step after the last aggregate function (or from the start).
func (p *Path) IsGroupPath() bool {
	group := false
	for i := range p.Steps {
		s := &p.Steps[i]
		if s.Kind == KFunc && s.Agg {
			group = false
			continue
		}
		if s.IsGroupStep() {
			group = true
		}
	}
	return group
}

// Walk calls fn for every path in the tree (p itself, operand paths, nested), pre-order.
func (p *Path) Walk(fn func(*Path)) {
	fn(p)
	for i := range p.Steps {
		if p.Steps[i].Kind == KFilter && p.Steps[i].Q != nil {
			p.Steps[i].Q.WalkPaths(fn)
		}
	}
}

// WalkPaths calls fn for every operand path below q.
func (q *Query) WalkPaths(fn func(*Path)) {
	if q == nil {
		return
	}
	switch q.Kind {
	case QOr, QAnd:
		q.L.WalkPaths(fn)
		q.R.WalkPaths(fn)
	case QParen:
		q.L.WalkPaths(fn)
	case QExists, QRegex:
		q.P.Walk(fn)
	case QCmp:
		if !q.A.IsLit {
			q.A.P.Walk(fn)
		}
		if !q.B.IsLit {
			q.B.P.Walk(fn)
		}
	}
}

// HasFilter reports whether any step (at any nesting) is a filter.
func (p *Path) HasFilter() bool {
	for i := range p.Steps {
		if p.Steps[i].Kind == KFilter {
			return true
		}
	}
	return false
}

// HasFunc reports whether the path or any operand path contains a function.
func (p *Path) HasFunc() bool {
	found := false
	p.Walk(func(q *Path) {
		for i := range q.Steps {
			if q.Steps[i].Kind == KFunc {
				found = true
			}
		}
	})
	return found
}

// HasDollarOperand reports whether any filter below p uses a "$"-rooted operand.
func (p *Path) HasDollarOperand() bool {
	found := false
	first := true
	p.Walk(func(q *Path) {
		if first {
			first = false
			return
		}
		if q.Root == RootDollar {
			found = true
		}
	})
	return found
}

// HasAggregate reports whether the path or any operand contains an aggregate function.
func (p *Path) HasAggregate() bool {
	found := false
	p.Walk(func(q *Path) {
		for i := range q.Steps {
			if q.Steps[i].Kind == KFunc && q.Steps[i].Agg {
				found = true
			}
		}
	})
	return found
}

// KindTag is a short name for histograms: kind plus "rec:" prefix.
func (s *Step) KindTag() string {
	if s.Rec {
		return ".." + s.Kind.String()
	}
	return s.Kind.String()
}
