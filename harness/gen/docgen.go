package gen

import (
	"math"
	"math/big"
	"regexp"
	"strconv"
	"strings"
)

var numPool = []float64{0, 1, 2, 3, -1, 1.5, 10, 100, -0.5, 1e21, 1e-7, 123456789, 2}
var strPool = []string{"a", "b", "", "1", "a b", "é", "it's", "ab", "A", "a/b", "x\\y", "true", "null", "say \"hi\"", "xab", "abx", "ba", "aa"}

// Leaf draws a scalar or empty container.
func (g *G) Leaf() *DNode {
	switch g.intn("leaf", 12) {
	case 0:
		return Null()
	case 1, 2:
		return Bool(g.chance("b", 50))
	case 3, 4, 5, 6:
		if g.chance("extreme", 4) {
			// numbers only json.Number can hold, and integers beyond 2^53
			return NumText([]string{"1e999", "-1e999", "1e-999", "123456789012345678901234567890", "9007199254740993", "9007199254740992", "-0"}[g.intn("extremev", 7)])
		}
		return Num(numPool[g.intn("numv", len(numPool))])
	case 7, 8, 9:
		return Str(strPool[g.intn("strv", len(strPool))])
	case 10:
		return Arr()
	}
	return Obj()
}

// Wide draws a container far wider than the usual handful of members: 65..140 array elements
// or 20..45 object members (sizes at which pooled buffers and tables have to grow).
func (g *G) Wide() *DNode {
	if g.chance("wideobj", 40) {
		o := Obj()
		n := 20 + g.intn("widekeys", 26)
		for i := 0; i < n; i++ {
			o.Set("k"+strconv.Itoa((i*37)%n)+"_"+strconv.Itoa(i), Num(float64(i)))
		}
		return o
	}
	a := Arr()
	n := 65 + g.intn("widelen", 76)
	for i := 0; i < n; i++ {
		if i%9 == 4 {
			a.Kids = append(a.Kids, Obj().Set("a", Num(float64(i))))
		} else {
			a.Kids = append(a.Kids, Num(float64(i)))
		}
	}
	return a
}

// Deep draws a spine nested 14..44 levels (objects and arrays alternating irregularly), with a
// few scalar members beside the spine: far deeper than the usual five levels, at sizes where a
// traversal's explicit stack or a recursion has to grow.
func (g *G) Deep() *DNode {
	n := 14 + g.intn("deeplevels", 31)
	cur := g.Leaf()
	for i := 0; i < n; i++ {
		if g.chance("deepobj", 60) {
			o := Obj()
			if g.chance("deepsib", 30) {
				o.Set(g.key(), g.Leaf())
			}
			o.Set(g.key(), cur)
			cur = o
		} else {
			a := Arr()
			if g.chance("deepsib", 30) {
				a.Kids = append(a.Kids, g.Leaf())
			}
			a.Kids = append(a.Kids, cur)
			cur = a
		}
	}
	return cur
}

// FreeDoc draws an arbitrary JSON value nested at most depth levels.
func (g *G) FreeDoc(depth int) *DNode {
	if depth > 0 && g.chance("wide", 2) {
		return g.Wide()
	}
	// (evaluation cost has one degree per recursive descent: a deep spine only under paths with at most one)
	if depth >= 2 && !g.deepUsed && !g.O.NoDeepDocs && g.recs <= 1 && g.chance("deep", 1) {
		g.deepUsed = true // at most one deep spine per case
		return g.Deep()
	}
	if depth <= 0 || g.chance("freeleaf", 30) {
		return g.Leaf()
	}
	n := g.intn("width", 5)
	if g.chance("freeobj", 55) {
		o := Obj()
		for i := 0; i < n; i++ {
			o.Set(g.key(), g.FreeDoc(depth-1))
		}
		return o
	}
	a := Arr()
	for i := 0; i < n; i++ {
		a.Kids = append(a.Kids, g.FreeDoc(depth-1))
	}
	return a
}

// Merge overlays b on a: objects union their keys, arrays merge element-wise.
func Merge(a, b *DNode) *DNode {
	if a == nil {
		return b
	}
	if b == nil {
		return a
	}
	if a.K == DObj && b.K == DObj {
		out := a.Clone()
		for i, k := range b.Keys {
			if cur := out.Get(k); cur != nil {
				out.Set(k, Merge(cur, b.Kids[i]))
			} else {
				out.Set(k, b.Kids[i])
			}
		}
		return out
	}
	if a.K == DArr && b.K == DArr {
		out := a.Clone()
		for i, k := range b.Kids {
			if i < len(out.Kids) {
				out.Kids[i] = Merge(out.Kids[i], k)
			} else {
				out.Kids = append(out.Kids, k)
			}
		}
		return out
	}
	return b
}

type docBuilder struct {
	g      *G
	atRoot *DNode // witnesses for "$"-rooted operands, merged into the root at the end
	built  int    // witness calls so far: the construction is exponential in the path length unless bounded
}

// maxWitnessCalls bounds the witness construction (the document is trimmed to MaxDocNodes
// afterwards anyway); beyond it a branch ends in a leaf.
const maxWitnessCalls = 600

// DocFor draws a document on which p is likely (not certain) to select something:
// a witness is constructed step by step, then perturbed with probability ~0.3.
func (g *G) DocFor(p *Path) *DNode {
	b := &docBuilder{g: g}
	d := b.witness(p.Steps, func() *DNode { return g.tail() })
	if b.atRoot != nil {
		d = Merge(d, b.atRoot)
	}
	g.DocKind = "directed"
	if g.chance("perturb", 25) {
		g.DocKind = "perturbed"
		n := 1 + g.intn("nperturb", 2)
		for i := 0; i < n; i++ {
			d = g.perturb(d)
		}
	}
	return Trim(d, MaxDocNodes)
}

func (g *G) tail() *DNode {
	if g.chance("tailfree", 35) {
		return g.FreeDoc(2)
	}
	return g.Leaf()
}

func (g *G) siblings(o *DNode, leaf func() *DNode) {
	n := g.intn("nsib", 3)
	for i := 0; i < n; i++ {
		k := g.key()
		if o.Get(k) == nil {
			if g.chance("sibsame", 40) {
				o.Set(k, leaf())
			} else {
				o.Set(k, g.FreeDoc(1))
			}
		}
	}
}

// witness builds a value on which steps are likely to select something ending in leaf().
func (b *docBuilder) witness(steps []Step, leaf func() *DNode) *DNode {
	g := b.g
	b.built++
	if len(steps) == 0 || b.built > maxWitnessCalls {
		return leaf()
	}
	s := &steps[0]
	rest := steps[1:]
	sub := func() *DNode { return b.witness(rest, leaf) }
	var d *DNode
	switch s.Kind {
	case KFunc:
		// what follows operates on the function's output, not on the document
		return leaf()
	case KName:
		d = Obj()
		d.Set(s.Key, sub())
		g.siblings(d, sub)
	case KMulti:
		d = Obj()
		any := false
		for i := range s.Ent {
			if s.Ent[i].Wild {
				continue
			}
			if g.chance("multihave", 70) {
				d.Set(s.Ent[i].Key, sub())
				any = true
			}
		}
		if !any || g.chance("multisib", 40) {
			g.siblings(d, sub)
		}
		if allWildEntries(s) && g.chance("multiarr", 50) {
			d = Arr()
			n := 1 + g.intn("nel", 3)
			for i := 0; i < n; i++ {
				d.Kids = append(d.Kids, sub())
			}
		}
	case KWild:
		n := 1 + g.intn("nwild", 3)
		if g.chance("wildobj", 50) {
			d = Obj()
			for i := 0; i < n; i++ {
				d.Set(g.key(), sub())
			}
		} else {
			d = Arr()
			for i := 0; i < n; i++ {
				d.Kids = append(d.Kids, sub())
			}
		}
	case KIndex, KSlice, KUnion:
		n := g.intn("arrlen", 6)
		for i := range s.Sub {
			if s.Sub[i].Kind == KIndex {
				ix := s.Sub[i].N
				if ix >= 0 && ix < 14 && ix >= n && g.chance("fit", 80) {
					n = ix + 1 + g.intn("slack", 3)
				}
				if ix < 0 && ix > -14 && -ix > n && g.chance("fit", 80) {
					n = -ix
				}
			}
		}
		if g.chance("widearr", 3) {
			n = 65 + g.intn("widen", 60)
		}
		d = Arr()
		for i := 0; i < n; i++ {
			if n > 20 && i > 3 {
				d.Kids = append(d.Kids, Num(float64(i)))
				continue
			}
			if g.chance("elsub", 75) {
				d.Kids = append(d.Kids, sub())
			} else {
				d.Kids = append(d.Kids, g.Leaf())
			}
		}
	case KFilter:
		n := 1 + g.intn("nmember", 4)
		asObj := g.chance("filterobj", 35)
		if asObj {
			d = Obj()
		} else {
			d = Arr()
		}
		for i := 0; i < n; i++ {
			m := b.memberFor(s.Q, sub())
			if asObj {
				d.Set(g.key(), m)
			} else {
				d.Kids = append(d.Kids, m)
			}
		}
	}
	if s.Rec {
		levels := g.intn("reclevels", 3)
		for i := 0; i < levels; i++ {
			if g.chance("recobj", 60) {
				o := Obj()
				o.Set(g.key(), d)
				g.siblings(o, func() *DNode { return g.FreeDoc(1) })
				d = o
			} else {
				a := Arr(d)
				if g.chance("recmore", 50) {
					a.Kids = append(a.Kids, g.FreeDoc(1))
				}
				d = a
			}
		}
	}
	return d
}

func allWildEntries(s *Step) bool {
	for i := range s.Ent {
		if !s.Ent[i].Wild {
			return false
		}
	}
	return true
}

// memberFor overlays witnesses for the filter's operands on a member: half of the time
// values chosen to make the filter hold (or fail) for this member, otherwise values merely
// related to the operands.
func (b *docBuilder) memberFor(q *Query, member *DNode) *DNode {
	switch r := b.g.intn("membermode", 10); {
	case r < 5:
		return b.satisfy(q, member, true)
	case r < 7:
		return b.satisfy(q, member, false)
	}
	return b.memberRelated(q, member)
}

func mirrorOp(op string) string {
	switch op {
	case "<":
		return ">"
	case "<=":
		return ">="
	case ">":
		return "<"
	case ">=":
		return "<="
	}
	return op
}

func negateOp(op string) string {
	switch op {
	case "==":
		return "!="
	case "!=":
		return "=="
	case "<":
		return ">="
	case "<=":
		return ">"
	case ">":
		return "<="
	case ">=":
		return "<"
	}
	return op
}

func (b *docBuilder) overlay(p *Path, member *DNode, leaf func() *DNode) *DNode {
	w := b.witness(p.Steps, leaf)
	if p.Root == RootAt {
		return Merge(member, w)
	}
	b.atRoot = Merge(b.atRoot, w)
	return member
}

// litLeaf returns a value v for which "v op lit" holds.
func (g *G) litLeaf(op string, lit *Operand) *DNode {
	eq := func() *DNode {
		switch lit.LK {
		case LNum:
			if n, ok := new(big.Int).SetString(strings.TrimPrefix(lit.Num, "+"), 10); ok && g.chance("inttext", 50) {
				// an integer literal meets the same integer written as an integer (not in the float
				// spelling); beyond 2^53 also its neighbours, which may be the same float64
				if len(n.String()) >= 16 {
					n.Add(n, big.NewInt(int64(g.intn("intneighbour", 3)-1)))
				}
				return NumText(n.String())
			}
			f, _ := strconv.ParseFloat(lit.Num, 64)
			return Num(f)
		case LStr:
			return Str(lit.Str)
		case LBool:
			return Bool(lit.Bool)
		}
		return Null()
	}
	switch op {
	case "==":
		return eq()
	case "!=":
		if g.chance("neother", 50) {
			return g.Leaf()
		}
		if lit.LK == LNum {
			f, _ := strconv.ParseFloat(lit.Num, 64)
			return Num(f + 1)
		}
		return Str(lit.Str + "z")
	}
	f, _ := strconv.ParseFloat(lit.Num, 64)
	if g.chance("ulp", 15) {
		// one ULP away from the literal, on the side that satisfies (or just fails) the operator
		switch op {
		case "<", "<=":
			return Num(math.Nextafter(f, math.Inf(-1)))
		default:
			return Num(math.Nextafter(f, math.Inf(1)))
		}
	}
	switch op {
	case "<":
		return Num(f - 1)
	case "<=":
		if g.chance("leeq", 50) {
			return Num(f)
		}
		return Num(f - 0.5)
	case ">":
		return Num(f + 1)
	}
	if g.chance("geeq", 50) {
		return Num(f)
	}
	return Num(f + 0.5)
}

// satisfy overlays values that make q evaluate to want for this member (best effort).
func (b *docBuilder) satisfy(q *Query, member *DNode, want bool) *DNode {
	g := b.g
	switch q.Kind {
	case QParen:
		return b.satisfy(q.L, member, want)
	case QOr, QAnd:
		both := (q.Kind == QAnd) == want
		if both {
			return b.satisfy(q.R, b.satisfy(q.L, member, want), want)
		}
		if g.chance("side", 50) {
			return b.satisfy(q.L, member, want)
		}
		return b.satisfy(q.R, member, want)
	case QExists:
		if want != q.Not {
			return b.overlay(q.P, member, func() *DNode { return g.tail() })
		}
		return member
	case QRegex:
		re, err := regexp.Compile(q.Re)
		if err != nil {
			return member
		}
		for try := 0; try < 6; try++ {
			sv := strPool[g.intn("resat", len(strPool))]
			if re.MatchString(sv) == want {
				return b.overlay(q.P, member, func() *DNode { return Str(sv) })
			}
		}
		return member
	case QCmp:
		op := q.Op
		if !want {
			op = negateOp(op)
		}
		switch {
		case q.A.IsLit && q.B.IsLit:
			return member
		case q.B.IsLit:
			return b.overlay(q.A.P, member, func() *DNode { return g.litLeaf(op, q.B) })
		case q.A.IsLit:
			return b.overlay(q.B.P, member, func() *DNode { return g.litLeaf(mirrorOp(op), q.A) })
		}
		// path op path
		x, y := 1.0, 1.0
		switch op {
		case "!=", "<":
			y = 2
		case ">":
			x = 2
		}
		if op == "==" && g.chance("eqshared", 50) {
			k := g.intn("sharedk", len(sharedPool))
			member = b.overlay(q.A.P, member, sharedPool[k])
			return b.overlay(q.B.P, member, sharedPool[k])
		}
		member = b.overlay(q.A.P, member, func() *DNode { return Num(x) })
		return b.overlay(q.B.P, member, func() *DNode { return Num(y) })
	}
	return member
}

func (b *docBuilder) memberRelated(q *Query, member *DNode) *DNode {
	b.visitAtoms(q, func(p *Path, related *Operand, re string) {
		if p == nil {
			return
		}
		if b.g.chance("operandmissing", 22) {
			return
		}
		w := b.witness(p.Steps, func() *DNode { return b.g.relatedLeaf(related, re) })
		if p.Root == RootAt {
			member = Merge(member, w)
		} else {
			b.atRoot = Merge(b.atRoot, w)
		}
	})
	return member
}

// visitAtoms calls fn for every operand path of q with the operand it is compared with.
func (b *docBuilder) visitAtoms(q *Query, fn func(p *Path, related *Operand, re string)) {
	switch q.Kind {
	case QOr, QAnd:
		b.visitAtoms(q.L, fn)
		b.visitAtoms(q.R, fn)
	case QParen:
		b.visitAtoms(q.L, fn)
	case QExists:
		fn(q.P, nil, "")
	case QRegex:
		fn(q.P, nil, q.Re)
	case QCmp:
		if !q.A.IsLit {
			fn(q.A.P, q.B, "")
		}
		if !q.B.IsLit {
			fn(q.B.P, q.A, "")
		}
	}
}

var sharedPool = []func() *DNode{
	func() *DNode { return Num(1) },
	func() *DNode { return Num(2) },
	func() *DNode { return Str("a") },
	func() *DNode { return Bool(true) },
	func() *DNode { return Null() },
	func() *DNode { return Arr(Num(1)) },
	func() *DNode { return Obj().Set("a", Num(1)) },
	func() *DNode { return Num(1.5) },
	// containers that are nearly the same: one member / element more or less, another value inside
	func() *DNode { return Obj().Set("a", Num(1)).Set("b", Num(2)) },
	func() *DNode { return Obj().Set("a", Num(1)) },
	func() *DNode { return Obj() },
	func() *DNode { return Obj().Set("a", Num(2)) },
	func() *DNode { return Arr(Num(1), Num(2)) },
	func() *DNode { return Arr() },
	func() *DNode { return Arr(Arr(Num(1))) },
	func() *DNode { return Obj().Set("a", Obj().Set("a", Num(1))) },
	func() *DNode { return Obj().Set("a", Obj().Set("a", Num(1)).Set("b", Null())) },
}

// relatedLeaf draws the value an operand path should end in, relative to what it is
// compared with: equal, just below, just above, another type, a container.
func (g *G) relatedLeaf(related *Operand, re string) *DNode {
	if re != "" {
		if g.chance("renonstr", 20) {
			return g.Leaf()
		}
		return Str(strPool[g.intn("restr", len(strPool))])
	}
	if related == nil {
		return g.tail()
	}
	if !related.IsLit {
		return sharedPool[g.intn("shared", len(sharedPool))]()
	}
	r := g.intn("relation", 10)
	switch related.LK {
	case LNum:
		f, _ := strconv.ParseFloat(related.Num, 64)
		switch {
		case r < 3:
			return Num(f)
		case r < 4:
			// the immediate float64 neighbours: comparisons are exact, not approximate
			if g.chance("ulpdir", 50) {
				return Num(math.Nextafter(f, math.Inf(1)))
			}
			return Num(math.Nextafter(f, math.Inf(-1)))
		case r < 5:
			return Num(f - 1)
		case r < 6:
			return Num(f + 1)
		case r < 7:
			return Str(related.Num)
		case r < 8:
			return Arr(Num(f))
		}
	case LStr:
		switch {
		case r < 5:
			return Str(related.Str)
		case r < 6:
			return Str(related.Str + "x")
		case r < 7:
			return Arr(Str(related.Str))
		}
	case LBool:
		switch {
		case r < 4:
			return Bool(related.Bool)
		case r < 6:
			return Bool(!related.Bool)
		case r < 7:
			if related.Bool {
				return Str("true")
			}
			return Str("false")
		}
	case LNull:
		switch {
		case r < 5:
			return Null()
		case r < 6:
			return Str("null")
		case r < 7:
			return Num(0)
		}
	}
	return g.Leaf()
}

// perturb applies one random mutation somewhere in the tree.
func (g *G) perturb(d *DNode) *DNode {
	d = d.Clone()
	// pick a node by random descent
	cur := d
	var parent *DNode
	idx := -1
	for len(cur.Kids) > 0 && g.chance("descend", 70) {
		i := g.intn("kid", len(cur.Kids))
		parent, idx = cur, i
		cur = cur.Kids[i]
	}
	var repl *DNode
	switch g.intn("mut", 5) {
	case 0: // delete a member / element
		if parent != nil {
			if parent.K == DObj {
				parent.Del(parent.Keys[idx])
			} else {
				parent.Kids = append(parent.Kids[:idx:idx], parent.Kids[idx+1:]...)
			}
			return d
		}
		repl = g.Leaf()
	case 1: // retype
		repl = g.Leaf()
	case 2: // empty the container
		switch cur.K {
		case DObj:
			repl = Obj()
		case DArr:
			repl = Arr()
		default:
			repl = Null()
		}
	case 3: // object <-> array
		switch cur.K {
		case DObj:
			repl = Arr(cur.Kids...)
		case DArr:
			o := Obj()
			for i, k := range cur.Kids {
				o.Set(Keys[i%4], k)
			}
			repl = o
		default:
			repl = Arr(cur)
		}
	default:
		repl = g.FreeDoc(2)
	}
	if parent == nil {
		return repl
	}
	parent.Kids[idx] = repl
	return d
}

// MaxDocNodes bounds generated documents (DESIGN: documents <= ~200 nodes). Nested filters
// with "$.."-operands make evaluation polynomial in the document size with a high degree;
// the bound keeps a case in the millisecond range.
const MaxDocNodes = 220

// Trim keeps at most budget nodes (breadth-first), replacing what is cut by null leaves /
// shortened containers.
func Trim(d *DNode, budget int) *DNode {
	if d.Size() <= budget {
		return d
	}
	d = d.Clone()
	queue := []*DNode{d}
	used := 1
	for len(queue) > 0 {
		n := queue[0]
		queue = queue[1:]
		keep := 0
		for keep < len(n.Kids) && used < budget {
			keep++
			used++
		}
		n.Kids = n.Kids[:keep]
		if n.K == DObj {
			n.Keys = n.Keys[:keep]
		}
		queue = append(queue, n.Kids...)
	}
	return d
}

// Doc draws a document for p: 72 % path-directed, 28 % free; at most MaxDocNodes nodes - except
// that one document in 250 gets one of its arrays stretched beyond a thousand elements.
func (g *G) Doc(p *Path) *DNode {
	var d *DNode
	if g.chance("directed", 72) {
		d = Trim(g.DocFor(p), MaxDocNodes)
	} else {
		g.DocKind = "free"
		d = Trim(g.FreeDoc(4), MaxDocNodes)
	}
	if !g.O.NoDeepDocs && Uniform(g.T, "stretch", 250) == 0 {
		// only where the cost stays linear in the array length: no filter at all (at most one '..'),
		// or a single un-nested filter without '$'-rooted operands and no '..' - a filter inside a
		// filter, or a '$' operand that fans out, over a thousand members is minutes of work
		filters := 0
		p.Walk(func(q *Path) {
			for i := range q.Steps {
				if q.Steps[i].Kind == KFilter {
					filters++
				}
			}
		})
		if (filters == 0 && g.recs <= 1) || (filters == 1 && g.recs == 0 && !p.HasDollarOperand()) {
			d = g.Stretch(d)
		}
	}
	return d
}

// Stretch repeats the elements of one non-empty array of d (the first in pre-order whose elements
// are small) until it has 1025..1104 of them: sizes at which block-wise traversals, pooled
// buffers and index tables meet their limits.
func (g *G) Stretch(d *DNode) *DNode {
	d = d.Clone()
	var target *DNode
	var walk func(n *DNode)
	walk = func(n *DNode) {
		if target != nil {
			return
		}
		if n.K == DArr && len(n.Kids) > 0 {
			small := true
			for _, k := range n.Kids {
				if k.Size() > 4 {
					small = false
				}
			}
			if small {
				target = n
				return
			}
		}
		for _, k := range n.Kids {
			walk(k)
		}
	}
	walk(d)
	if target == nil {
		return d
	}
	want := 1025 + g.intn("stretchlen", 80)
	base := len(target.Kids)
	for i := base; i < want; i++ {
		target.Kids = append(target.Kids, target.Kids[i%base].Clone())
	}
	return d
}

// Opaquify replaces a random non-empty subset of leaves (and sometimes whole
// sub-containers) by opaque non-JSON values.
func (g *G) Opaquify(d *DNode) *DNode {
	d = d.Clone()
	count := 0
	last := ""
	newTagPct := []int{100, 50, 0}[g.intn("tagvariety", 3)] // all different ... all of one Go type
	var walk func(n *DNode, depth int) *DNode
	walk = func(n *DNode, depth int) *DNode {
		isLeaf := len(n.Kids) == 0
		pct := 6
		if isLeaf {
			pct = 30
		}
		if depth > 0 && g.chance("opq", pct) {
			count++
			// depending on the document, replacements repeat the previous type: two values of one (possibly
			// uncomparable) Go type are what a path-vs-path comparison has to cope with
			if !isLeaf && g.chance("wrapsub", 50) {
				// the sub-document stays what it is, behind a pointer / an Accessor / as raw JSON text
				return Wrap(WrapTags[g.intn("wraptag", len(WrapTags))], n)
			}
			if IsZeroSizeTag(last) && g.chance("zerosizefamily", 60) {
				// another zero-size value of a different type: same address, different value
				last = ZeroSizeTags[g.intn("zerosizetag", len(ZeroSizeTags))]
			} else if last == "" || g.chance("newtag", newTagPct) {
				last = OpaqueTags[g.intn("tag", len(OpaqueTags))]
			}
			return Opaque(last)
		}
		for i := range n.Kids {
			n.Kids[i] = walk(n.Kids[i], depth+1)
		}
		return n
	}
	d = walk(d, 0)
	if g.chance("opaqueroot", 8) {
		// the whole document is not decoded JSON
		if g.chance("wraproot", 50) {
			return Wrap(WrapTags[g.intn("wraproottag", len(WrapTags))], d)
		}
		return Opaque(OpaqueTags[g.intn("roottag", len(OpaqueTags))])
	}
	if count == 0 {
		// force one: replace the root's first child, or the root itself
		tag := OpaqueTags[g.intn("tag0", len(OpaqueTags))]
		if len(d.Kids) > 0 {
			d.Kids[g.intn("kid0", len(d.Kids))] = Opaque(tag)
		} else {
			return Opaque(tag)
		}
	}
	return d
}

// DistinctLeaves rewrites every scalar leaf to a unique value (C13), keeping types where
// easy: numbers become 1000+i, strings "s<i>", others become numbers.
func DistinctLeaves(d *DNode) *DNode {
	d = d.Clone()
	i := 0
	var walk func(n *DNode)
	walk = func(n *DNode) {
		switch n.K {
		case DObj, DArr:
			for _, k := range n.Kids {
				walk(k)
			}
			if len(n.Kids) == 0 {
				// keep empty containers distinguishable too
				i++
				if n.K == DArr {
					n.Kids = []*DNode{Num(float64(5000 + i))}
				} else {
					n.Set("u"+strconv.Itoa(i), Num(float64(5000+i)))
				}
			}
		case DStr:
			i++
			n.S = "s" + strconv.Itoa(i)
		case DNull:
			// a member whose value is null is a member like any other: every second null stays null
			i++
			if i%2 == 0 {
				*n = *Num(float64(1000 + i))
			}
		default:
			i++
			*n = *Num(float64(1000 + i))
		}
	}
	walk(d)
	return d
}

// Perturb applies one random mutation to a copy of d.
func (g *G) Perturb(d *DNode) *DNode { return g.perturb(d) }

// FilterContainer builds a container (array or object) of n pairwise-distinct members whose
// contents are derived from q's operand paths so that members hit, miss or mistype them, plus
// the witnesses for "$"-rooted operands that must be merged into the document root.
func (g *G) FilterContainer(q *Query, n int, asObj bool) (*DNode, *DNode) {
	b := &docBuilder{g: g}
	var members []*DNode
	seen := map[string]bool{}
	for i := 0; i < n; i++ {
		var base *DNode
		if g.chance("memberobj", 70) {
			base = Obj()
		} else {
			base = g.Leaf()
		}
		m := b.memberFor(q, base)
		if m.K == DObj {
			m = m.Clone()
			m.Set("id", Num(float64(100+i)))
		}
		if seen[m.JSON()] {
			m = Num(float64(1000 + i))
		}
		seen[m.JSON()] = true
		members = append(members, m)
	}
	var c *DNode
	if asObj {
		c = Obj()
		for i, m := range members {
			c.Set("k"+strconv.Itoa(i), m)
		}
	} else {
		c = Arr(members...)
	}
	return c, b.atRoot
}
