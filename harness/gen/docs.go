package gen

import (
	"bytes"
	"encoding/json"
	"fmt"
	"strconv"
	"strings"
)

// DKind is the kind of a document node.
type DKind int

const (
	DNull DKind = iota
	DBool
	DNum
	DStr
	DArr
	DObj
	DOpaque // non-JSON Go value named by Tag (C20)
)

// DNode is an ordered, serialisable document tree. Objects keep their keys in the order
// they were generated (never map order), so a case is a pure function of the rapid draws.
type DNode struct {
	K    DKind    `json:"k"`
	B    bool     `json:"b,omitempty"`
	N    string   `json:"n,omitempty"` // number text
	S    string   `json:"s,omitempty"`
	Keys []string `json:"keys,omitempty"`
	Kids []*DNode `json:"kids,omitempty"`
	Tag  string   `json:"tag,omitempty"`
}

func Null() *DNode              { return &DNode{K: DNull} }
func Bool(b bool) *DNode        { return &DNode{K: DBool, B: b} }
func Str(s string) *DNode       { return &DNode{K: DStr, S: s} }
func NumText(s string) *DNode   { return &DNode{K: DNum, N: s} }
func Arr(kids ...*DNode) *DNode { return &DNode{K: DArr, Kids: kids} }
func Obj() *DNode               { return &DNode{K: DObj} }
func Opaque(tag string) *DNode  { return &DNode{K: DOpaque, Tag: tag} }

// Num spells f the one way Go's shortest formatting does.
func Num(f float64) *DNode {
	return &DNode{K: DNum, N: strconv.FormatFloat(f, 'g', -1, 64)}
}

// Set adds or replaces a member of an object node.
func (d *DNode) Set(key string, v *DNode) *DNode {
	for i, k := range d.Keys {
		if k == key {
			d.Kids[i] = v
			return d
		}
	}
	d.Keys = append(d.Keys, key)
	d.Kids = append(d.Kids, v)
	return d
}

// Get returns the member of an object node.
func (d *DNode) Get(key string) *DNode {
	for i, k := range d.Keys {
		if k == key {
			return d.Kids[i]
		}
	}
	return nil
}

// Del removes a member of an object node.
func (d *DNode) Del(key string) {
	for i, k := range d.Keys {
		if k == key {
			d.Keys = append(d.Keys[:i:i], d.Keys[i+1:]...)
			d.Kids = append(d.Kids[:i:i], d.Kids[i+1:]...)
			return
		}
	}
}

// Clone deep-copies the tree.
func (d *DNode) Clone() *DNode {
	if d == nil {
		return nil
	}
	c := *d
	c.Keys = append([]string(nil), d.Keys...)
	c.Kids = make([]*DNode, len(d.Kids))
	for i := range d.Kids {
		c.Kids[i] = d.Kids[i].Clone()
	}
	return &c
}

// Size counts nodes.
// Depth is the number of container levels below (and including) d.
func (d *DNode) Depth() int {
	if d == nil || (d.K != DArr && d.K != DObj) {
		return 0
	}
	m := 0
	for _, k := range d.Kids {
		if x := k.Depth(); x > m {
			m = x
		}
	}
	return m + 1
}

func (d *DNode) Size() int {
	n := 1
	for _, k := range d.Kids {
		n += k.Size()
	}
	return n
}

// JSON renders the tree as JSON text. Opaque leaves are written as {"$go":"<tag>"}.
func (d *DNode) JSON() string {
	var sb strings.Builder
	d.write(&sb)
	return sb.String()
}

// ExtremeNumbers are valid JSON numbers that only json.Number can hold (float64 decoding
// rejects them as out of range). A document containing one is decoded with them replaced by
// the nearest representable spelling when UseNumber is off.
var ExtremeNumbers = map[string]string{"1e999": "1.7976931348623157e308", "-1e999": "-1.7976931348623157e308", "1e-999": "0"}

// jsonFor renders the JSON text to decode in the given mode.
func (d *DNode) jsonFor(useNumber bool) string {
	text := d.JSON()
	if useNumber || !d.hasExtreme() {
		return text
	}
	c := d.Clone()
	var walk func(n *DNode)
	walk = func(n *DNode) {
		if n.K == DNum {
			if r, ok := ExtremeNumbers[n.N]; ok {
				n.N = r
			}
		}
		for _, k := range n.Kids {
			walk(k)
		}
	}
	walk(c)
	return c.JSON()
}

func (d *DNode) hasExtreme() bool {
	if d.K == DNum {
		_, ok := ExtremeNumbers[d.N]
		return ok
	}
	for _, k := range d.Kids {
		if k.hasExtreme() {
			return true
		}
	}
	return false
}

func (d *DNode) write(sb *strings.Builder) {
	switch d.K {
	case DNull:
		sb.WriteString("null")
	case DBool:
		if d.B {
			sb.WriteString("true")
		} else {
			sb.WriteString("false")
		}
	case DNum:
		sb.WriteString(d.N)
	case DStr:
		b, _ := json.Marshal(d.S)
		sb.Write(b)
	case DArr:
		sb.WriteByte('[')
		for i, k := range d.Kids {
			if i > 0 {
				sb.WriteByte(',')
			}
			k.write(sb)
		}
		sb.WriteByte(']')
	case DObj:
		sb.WriteByte('{')
		for i, k := range d.Kids {
			if i > 0 {
				sb.WriteByte(',')
			}
			b, _ := json.Marshal(d.Keys[i])
			sb.Write(b)
			sb.WriteByte(':')
			k.write(sb)
		}
		sb.WriteByte('}')
	case DOpaque:
		b, _ := json.Marshal(d.Tag)
		sb.WriteString(`{"$go":`)
		sb.Write(b)
		if len(d.Kids) == 1 {
			// a wrapper (pointer, Accessor, json.RawMessage) around a document of its own
			sb.WriteString(`,"$inner":`)
			d.Kids[0].write(sb)
		}
		sb.WriteByte('}')
	}
}

// Decode decodes JSON text exactly as a user of the library would.
func Decode(text string, useNumber bool) (interface{}, error) {
	dec := json.NewDecoder(bytes.NewReader([]byte(text)))
	if useNumber {
		dec.UseNumber()
	}
	var v interface{}
	if err := dec.Decode(&v); err != nil {
		return nil, err
	}
	if dec.More() {
		return nil, fmt.Errorf("trailing data")
	}
	return v, nil
}

// MustDecode decodes or panics (generated documents are valid by construction).
func MustDecode(text string, useNumber bool) interface{} {
	v, err := Decode(text, useNumber)
	if err != nil {
		panic(fmt.Sprintf("harness bug: generated document does not decode: %v: %s", err, text))
	}
	return v
}

// Build decodes the tree's JSON text and substitutes opaque leaves.
func (d *DNode) Build(useNumber bool) interface{} {
	v := MustDecode(d.jsonFor(useNumber), useNumber)
	return substituteOpaque(v)
}

func substituteOpaque(v interface{}) interface{} {
	switch t := v.(type) {
	case map[string]interface{}:
		if len(t) == 1 {
			if tag, ok := t["$go"].(string); ok {
				return OpaqueValue(tag)
			}
		}
		if len(t) == 2 {
			if tag, ok := t["$go"].(string); ok {
				if inner, ok := t["$inner"]; ok {
					return WrapValue(tag, substituteOpaque(inner))
				}
			}
		}
		for k, c := range t {
			t[k] = substituteOpaque(c)
		}
	case []interface{}:
		for i, c := range t {
			t[i] = substituteOpaque(c)
		}
	}
	return v
}

// ShareSubtrees makes the document a DAG: up to two container slots are overwritten with a
// reference to a container that already occurs elsewhere in the document (never an ancestor or
// descendant, so no cycle arises). Documents assembled in memory, or decoded from formats with
// aliases, look like this; every step of a path is defined on values, so sharing must not change
// any result. The choice is a pure function of seed.
func ShareSubtrees(doc interface{}, seed uint64) interface{} {
	type slot struct {
		path   []interface{}
		parent interface{}
		key    interface{}
		val    interface{}
	}
	var slots []slot
	var walk func(v interface{}, path []interface{})
	walk = func(v interface{}, path []interface{}) {
		switch t := v.(type) {
		case map[string]interface{}:
			keys := make([]string, 0, len(t))
			for k := range t {
				keys = append(keys, k)
			}
			for i := 1; i < len(keys); i++ {
				for j := i; j > 0 && keys[j] < keys[j-1]; j-- {
					keys[j], keys[j-1] = keys[j-1], keys[j]
				}
			}
			for _, k := range keys {
				p := append(append([]interface{}{}, path...), k)
				switch t[k].(type) {
				case map[string]interface{}, []interface{}:
					slots = append(slots, slot{p, t, k, t[k]})
				}
				walk(t[k], p)
			}
		case []interface{}:
			for i := range t {
				p := append(append([]interface{}{}, path...), i)
				switch t[i].(type) {
				case map[string]interface{}, []interface{}:
					slots = append(slots, slot{p, t, i, t[i]})
				}
				walk(t[i], p)
			}
		}
	}
	walk(doc, nil)
	if len(slots) < 2 {
		return doc
	}
	next := func(n int) int {
		seed = seed*6364136223846793005 + 1442695040888963407
		return int((seed >> 33) % uint64(n))
	}
	related := func(a, b []interface{}) bool {
		n := len(a)
		if len(b) < n {
			n = len(b)
		}
		for i := 0; i < n; i++ {
			if a[i] != b[i] {
				return false
			}
		}
		return true // one is a prefix of the other
	}
	for round := 0; round < 2; round++ {
		s, d := slots[next(len(slots))], slots[next(len(slots))]
		if related(s.path, d.path) {
			continue
		}
		switch p := d.parent.(type) {
		case map[string]interface{}:
			p[d.key.(string)] = s.val
		case []interface{}:
			p[d.key.(int)] = s.val
		}
		break // one aliasing per document keeps "no cycle" trivially true
	}
	return doc
}

// OverlapSlices makes one array of the document a prefix view of another array's storage:
// dst = src[:k] (k < len(src)), so that dst has spare capacity whose memory is the tail of
// src — the shape `page := all[:2]` leaves behind in hand-built documents. Appending to dst
// would overwrite src[k]. Values are unchanged for every reader.
func OverlapSlices(doc interface{}, seed uint64) interface{} {
	type slot struct {
		path   []interface{}
		parent interface{}
		key    interface{}
		val    []interface{}
	}
	var slots []slot
	var walk func(v interface{}, path []interface{})
	walk = func(v interface{}, path []interface{}) {
		switch t := v.(type) {
		case map[string]interface{}:
			keys := make([]string, 0, len(t))
			for k := range t {
				keys = append(keys, k)
			}
			for i := 1; i < len(keys); i++ {
				for j := i; j > 0 && keys[j] < keys[j-1]; j-- {
					keys[j], keys[j-1] = keys[j-1], keys[j]
				}
			}
			for _, k := range keys {
				p := append(append([]interface{}{}, path...), k)
				if a, ok := t[k].([]interface{}); ok {
					slots = append(slots, slot{p, t, k, a})
				}
				walk(t[k], p)
			}
		case []interface{}:
			for i := range t {
				p := append(append([]interface{}{}, path...), i)
				if a, ok := t[i].([]interface{}); ok {
					slots = append(slots, slot{p, t, i, a})
				}
				walk(t[i], p)
			}
		}
	}
	walk(doc, nil)
	next := func(n int) int {
		seed = seed*6364136223846793005 + 1442695040888963407
		return int((seed >> 33) % uint64(n))
	}
	if len(slots) < 2 {
		return doc
	}
	for try := 0; try < 4; try++ {
		s, d := slots[next(len(slots))], slots[next(len(slots))]
		if len(s.val) < 2 || len(s.path) == 0 {
			continue
		}
		related := true
		n := len(s.path)
		if len(d.path) < n {
			n = len(d.path)
		}
		for i := 0; i < n; i++ {
			if s.path[i] != d.path[i] {
				related = false
			}
		}
		if related {
			continue
		}
		view := s.val[:1+next(len(s.val)-1)]
		switch p := d.parent.(type) {
		case map[string]interface{}:
			p[d.key.(string)] = view
		case []interface{}:
			p[d.key.(int)] = view
		}
		return doc
	}
	return doc
}
