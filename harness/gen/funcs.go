package gen

import (
	"encoding/json"
	"fmt"
	"math"
	"reflect"
)

// User functions of the generated configs (G-FUNC). The semantics are pure and shared by
// the library-side closures (props) and by SPEC; which function ran is observable from the
// output because wrappers embed their own name.

// FilterNames / AggNames are the registered names. Behaviour is (index mod 3).
// "fre" is the identity; the library-side closure additionally re-enters the library when a
// check asks for it (C05: a user function that itself calls a parsed function).
// "fnan" maps negative numbers and empty arrays to NaN (think "mean of nothing"); the
// generators use it inside filter operands only, where its output is compared, never returned.
//
// "fnest" / "gnest" are functions that themselves run a JSONPath: "fnest" returns member "a" of
// its argument, "gnest" the second of its arguments. The library-side closures really call
// jsonpath.Retrieve ("$.a" / "$[1]") and, when that inner retrieval fails, return ITS error
// unchanged, as a user function naturally would; for the outer retrieval that is still a failed
// user function.
//
// "fboth" is registered twice on every Config: as a filter function and, under the same name, as an
// aggregate function (in either order). ".fboth()" is the filter function: the two kinds have
// separate name spaces and a function step looks among the filter functions first.
var FilterNames = []string{"f1", "f2", "f3", "f4", "f5", "f6", "fre", "fnan", "fnest", "fboth"}

// "gid" returns the very slice it was given (an aggregate a user could plausibly write); it
// makes the ownership of the argument list observable (C05).
var AggNames = []string{"g1", "g2", "g3", "g4", "g5", "g6", "gid", "gnest"}

func nameIndex(names []string, name string) int {
	for i, n := range names {
		if n == name {
			return i
		}
	}
	return -1
}

// IsFilterName / IsAggName report whether the name belongs to the catalogue.
func IsFilterName(name string) bool { return nameIndex(FilterNames, name) >= 0 }
func IsAggName(name string) bool    { return nameIndex(AggNames, name) >= 0 }

func typeName(v interface{}) string {
	if v == nil {
		return "null"
	}
	return reflect.TypeOf(v).String()
}

// ApplyFilter is the semantics of filter function name.
func ApplyFilter(name string, v interface{}) (interface{}, error) {
	i := nameIndex(FilterNames, name)
	if i < 0 {
		return nil, fmt.Errorf("harness bug: unknown filter function %s", name)
	}
	if name == "fre" {
		return v, nil
	}
	if name == "fboth" {
		return []interface{}{"fboth", v}, nil
	}
	if name == "fnest" {
		if m, ok := v.(map[string]interface{}); ok {
			if x, ok := m["a"]; ok {
				return x, nil
			}
			return nil, fmt.Errorf("member did not exist (path=.a)") // the text of the inner retrieval's error
		}
		return nil, fmt.Errorf("type unmatched (expected=object, found=%s, path=.a)", typeName(v))
	}
	if name == "fnan" {
		switch t := v.(type) {
		case float64:
			if t < 0 {
				return math.NaN(), nil
			}
		case json.Number:
			if f, _ := t.Float64(); f < 0 {
				return math.NaN(), nil
			}
		case []interface{}:
			if len(t) == 0 {
				return math.NaN(), nil
			}
		}
		return v, nil
	}
	switch i % 3 {
	case 0: // wrap
		return []interface{}{name, v}, nil
	case 1: // transform scalars, reject strings and containers
		switch t := v.(type) {
		case float64:
			return t + 1, nil
		case json.Number:
			f, _ := t.Float64()
			return f + 1, nil
		case bool:
			return !t, nil
		case nil:
			return name, nil
		}
		return nil, fmt.Errorf("%s: unsupported %s", name, typeName(v))
	default: // identity, rejects falsy values (null, false, "", zero)
		switch t := v.(type) {
		case nil:
			return nil, fmt.Errorf("%s: falsy null", name)
		case bool:
			if !t {
				return nil, fmt.Errorf("%s: falsy false", name)
			}
		case string:
			if t == "" {
				return nil, fmt.Errorf("%s: falsy empty string", name)
			}
		case float64:
			if t == 0 {
				return nil, fmt.Errorf("%s: falsy zero", name)
			}
		case json.Number:
			// a number of a document decoded with UseNumber: zero in any spelling ("0", "-0.0", "0e5")
			if f, err := t.Float64(); err == nil && f == 0 {
				return nil, fmt.Errorf("%s: falsy zero", name)
			}
		}
		return v, nil
	}
}

// ApplyAggregate is the semantics of aggregate function name.
func ApplyAggregate(name string, vs []interface{}) (interface{}, error) {
	i := nameIndex(AggNames, name)
	if i < 0 {
		return nil, fmt.Errorf("harness bug: unknown aggregate function %s", name)
	}
	if name == "gid" {
		return vs, nil
	}
	if name == "gnest" {
		if len(vs) >= 2 {
			return vs[1], nil
		}
		return nil, fmt.Errorf("member did not exist (path=[1])")
	}
	switch i % 3 {
	case 0:
		return float64(len(vs)), nil
	case 1:
		out := make([]interface{}, 0, len(vs)+1)
		out = append(out, name)
		out = append(out, vs...)
		return out, nil
	default:
		if len(vs)%2 == 1 {
			return nil, fmt.Errorf("%s: odd length %d", name, len(vs))
		}
		if len(vs) == 0 {
			return nil, nil
		}
		return vs[0], nil
	}
}

// PureFuncs implements spec.Funcs with the catalogue semantics.
type PureFuncs struct{}

func (PureFuncs) Filter(name string, v interface{}) (interface{}, error) {
	return ApplyFilter(name, v)
}
func (PureFuncs) Aggregate(name string, vs []interface{}) (interface{}, error) {
	return ApplyAggregate(name, vs)
}

// DeepCopy copies JSON containers; scalars and opaque values are returned as they are.
func DeepCopy(v interface{}) interface{} {
	switch t := v.(type) {
	case map[string]interface{}:
		m := make(map[string]interface{}, len(t))
		for k, c := range t {
			m[k] = DeepCopy(c)
		}
		return m
	case []interface{}:
		a := make([]interface{}, len(t))
		for i, c := range t {
			a[i] = DeepCopy(c)
		}
		return a
	}
	return v
}
