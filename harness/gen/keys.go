package gen

import (
	"strings"
	"unicode"

	"pgregory.net/rapid"
)

var keyRunes = []rune{
	'a', 'b', 'Z', '0', '9', '_', '-',
	' ', '!', '"', '#', '$', '%', '&', '\'', '(', ')', '*', '+', ',', '.', '/', ':', ';', '<', '=', '>', '?', '@', '[', '\\', ']', '^', '`', '{', '|', '}', '~',
	0x00, 0x01, 0x08, 0x09, 0x0a, 0x0c, 0x0d, 0x1f, 0x7f,
	0x80, 0xe9, 0x3b1, 0x4e2d, 0x2028, 0xfeff, 0xfffd, 0xffff, 0x10000, 0x1f600, 0x10ffff,
}

var keyLookAlikes = []string{`\n`, `\t`, `\u0041`, `\ud800`, `\\`, `\'`, `\"`, `\/`, `\b`, `é`, `😀`, `()`, `..`, `*`, `$`, `@`, `?(`, `['a']`}

// Key draws an object key of 0..12 characters from all planes, ASCII symbols, control
// characters and escape look-alikes (G-KEY).
func (g *G) Key() string {
	n := g.intn("keylen", 8)
	var sb strings.Builder
	for i := 0; i < n; i++ {
		switch k := g.intn("keypart", 10); {
		case k < 6:
			sb.WriteRune(keyRunes[g.intn("keyrune", len(keyRunes))])
		case k < 8:
			sb.WriteString(keyLookAlikes[g.intn("keylook", len(keyLookAlikes))])
		default:
			r := rapid.Rune().Draw(g.T, "anyrune")
			if r >= 0xd800 && r <= 0xdfff {
				r = 0xfffd
			}
			sb.WriteRune(r)
		}
	}
	r := []rune(sb.String())
	if len(r) > 12 {
		r = r[:12]
	}
	return string(r)
}

// NearMisses returns keys easily confused with key.
func NearMisses(key string) []string {
	var out []string
	add := func(s string) {
		if s != key {
			for _, o := range out {
				if o == s {
					return
				}
			}
			out = append(out, s)
		}
	}
	add(`\` + key)
	add(key + `\`)
	add(strings.ReplaceAll(key, `\`, ``))
	add(strings.ReplaceAll(key, `\`, `\\`))
	add(strings.ReplaceAll(key, `\n`, "\n"))
	add(strings.ReplaceAll(key, `\u0041`, "A"))
	add(strings.ReplaceAll(key, `\ud800`, "�"))
	add(strings.ReplaceAll(key, `\'`, "'"))
	add(strings.ReplaceAll(key, `\"`, `"`))
	add(strings.ReplaceAll(key, `\/`, "/"))
	add(strings.ReplaceAll(key, "'", `"`))
	add(strings.ReplaceAll(key, `"`, "'"))
	add(key + " ")
	add(" " + key)
	add(key + "\x00")
	if r := []rune(key); len(r) > 0 {
		add(string(r[:len(r)-1]))
		add(string(r[1:]))
	}
	add(strings.ToUpper(key))
	add(strings.Map(func(r rune) rune {
		if unicode.IsUpper(r) {
			return unicode.ToLower(r)
		}
		return r
	}, key))
	add(key + key)
	return out
}

// QuoteNameSurrogate is QuoteName mode 0 with every U+FFFD written as the lone-surrogate
// escape \ud800 (which JSON decoding maps to U+FFFD).
func QuoteNameSurrogate(key string, q Notation) string {
	s := QuoteName(key, q, 0)
	return strings.ReplaceAll(s, "�", `\ud800`)
}
