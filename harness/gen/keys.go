package gen

import (
	"strings"
	"unicode"

	"pgregory.net/rapid"
)

var keyRunes = []rune{
	'a', 'b', 'Z', '0', '9', '_', '-',
	' ', '!', '"', '#', '$', '%', '&', '\'', '(', ')', '*', '+', ',', '.', '/', ':', ';', '<', '=', '>', '?', '@', '[', '\\', ']', '^', '`', '{', '|', '}', '~',
	0x00, 0x01, 0x08, 0x09, 0x0a, 0x0c, 0x0d, 0x1f, 0x7f,
	0x80, 0xe9, 0x3b1, 0x4e2d, 0x2028, 0xfeff, 0xfffd, 0xffff, 0x10000, 0x1f600, 0x10ffff,
	// characters a "helpful" normalisation would fold into something else: typographic quotes,
	// primes, full-width forms of the grammar's own symbols, no-break / zero-width / ideographic
	// blanks, a combining accent (NFD), ligature, dotless i, long s, Kelvin sign, soft hyphen, dashes
	0x2018, 0x2019, 0x201c, 0x201d, 0x2032, 0x2033, 0xff07, 0xff02, 0xff04, 0xff20, 0xff0e, 0xff3b, 0xff3d, 0xff0a, 0xff08, 0xff09,
	0xa0, 0x200b, 0x200d, 0x3000, 0x2009, 0x0301, 0xfb01, 0x131, 0x17f, 0x212a, 0xad, 0x2010, 0x2013, 0x2212, 0xff41, 0xff10, 0x660,
}

// foldings maps such a character to what a normalisation would turn it into.
var foldings = map[rune]string{
	0x2018: "'", 0x2019: "'", 0x201c: `"`, 0x201d: `"`, 0x2032: "'", 0x2033: `"`, 0xff07: "'", 0xff02: `"`, 0xff04: "$", 0xff20: "@", 0xff0e: ".",
	0xff3b: "[", 0xff3d: "]", 0xff0a: "*", 0xff08: "(", 0xff09: ")", 0xa0: " ", 0x200b: "", 0x200d: "", 0x3000: " ", 0x2009: " ", 0x0301: "",
	0xfb01: "fi", 0x131: "i", 0x17f: "s", 0x212a: "K", 0xad: "", 0x2010: "-", 0x2013: "-", 0x2212: "-", 0xff41: "a", 0xff10: "0", 0x660: "0", 0xfeff: "", 0x2028: "\n",
}

func fold(key string) string {
	var sb strings.Builder
	for _, r := range key {
		if f, ok := foldings[r]; ok {
			sb.WriteString(f)
		} else {
			sb.WriteRune(r)
		}
	}
	return sb.String()
}

var keyLookAlikes = []string{`\n`, `\t`, `\u0041`, `\ud800`, `\\`, `\'`, `\"`, `\/`, `\b`, `é`, `😀`, `()`, `..`, `*`, `$`, `@`, `?(`, `['a']`}

// Key draws an object key of 0..12 characters from all planes, ASCII symbols, control
// characters and escape look-alikes (G-KEY).
func (g *G) Key() string {
	n := g.intn("keylen", 8)
	var sb strings.Builder
	for i := 0; i < n; i++ {
		switch k := g.intn("keypart", 10); {
		case k < 6:
			sb.WriteRune(keyRunes[g.intn("keyrune", len(keyRunes))])
		case k < 8:
			sb.WriteString(keyLookAlikes[g.intn("keylook", len(keyLookAlikes))])
		default:
			r := rapid.Rune().Draw(g.T, "anyrune")
			if r >= 0xd800 && r <= 0xdfff {
				r = 0xfffd
			}
			sb.WriteRune(r)
		}
	}
	r := []rune(sb.String())
	if len(r) > 12 {
		r = r[:12]
	}
	return string(r)
}

// NearMisses returns keys easily confused with key.
func NearMisses(key string) []string {
	var out []string
	add := func(s string) {
		if s != key {
			for _, o := range out {
				if o == s {
					return
				}
			}
			out = append(out, s)
		}
	}
	add(`\` + key)
	add(key + `\`)
	add(strings.ReplaceAll(key, `\`, ``))
	add(strings.ReplaceAll(key, `\`, `\\`))
	add(strings.ReplaceAll(key, `\n`, "\n"))
	add(strings.ReplaceAll(key, `\u0041`, "A"))
	add(strings.ReplaceAll(key, `\ud800`, "�"))
	add(strings.ReplaceAll(key, `\'`, "'"))
	add(strings.ReplaceAll(key, `\"`, `"`))
	add(strings.ReplaceAll(key, `\/`, "/"))
	add(strings.ReplaceAll(key, "'", `"`))
	add(strings.ReplaceAll(key, `"`, "'"))
	add(key + " ")
	add(" " + key)
	add(key + "\x00")
	if r := []rune(key); len(r) > 0 {
		add(string(r[:len(r)-1]))
		add(string(r[1:]))
	}
	add(strings.ToUpper(key))
	add(strings.Map(func(r rune) rune {
		if unicode.IsUpper(r) {
			return unicode.ToLower(r)
		}
		return r
	}, key))
	add(key + key)
	add(fold(key))
	add(strings.TrimSpace(key))
	add(strings.ReplaceAll(key, " ", ""))
	add(strings.ReplaceAll(key, "e\u0301", "é"))
	add(strings.ReplaceAll(key, "é", "e\u0301"))
	return out
}

// QuoteNameSurrogate is QuoteName mode 0 with every U+FFFD written as the lone-surrogate
// escape \ud800 (which JSON decoding maps to U+FFFD).
func QuoteNameSurrogate(key string, q Notation) string {
	s := QuoteName(key, q, 0)
	return strings.ReplaceAll(s, "�", `\ud800`)
}

// QuoteNameSurrogateAll writes every character as a \uXXXX escape and every U+FFFD as a lone
// surrogate escape (high or low half by position), so that a lone surrogate is directly followed
// by another escape that does not complete a pair.
func QuoteNameSurrogateAll(key string, q Notation) string {
	quote := "'"
	if q == NDQ {
		quote = `"`
	}
	var sb strings.Builder
	sb.WriteString(quote)
	r := []rune(key)
	for i, c := range r {
		if c == 0xfffd {
			if i+1 < len(r) && r[i+1] == 0xfffd {
				sb.WriteString(`\udc00`) // a lone low half
			} else {
				sb.WriteString(`\ud834`) // a high half followed by something that is not a low half
			}
			continue
		}
		writeU(&sb, c)
	}
	sb.WriteString(quote)
	return sb.String()
}
