package gen

import (
	"strings"
	"unicode"

	"pgregory.net/rapid"
)

// Families of G-MUT strings.
const (
	FamRender  = "rendered"
	FamStyled  = "rendered-styled"
	FamMutGen  = "mutated-generated"
	FamMutCorp = "mutated-suite"
	FamSoup    = "token-soup"
	FamUnicode = "unicode"
	FamBytes   = "bytes"
	FamBigInt  = "boundary-int"
	FamDeep    = "deep-nesting"
)

// deepString builds a string (<= 256 characters) that nests one construct as deeply as it fits:
// filters inside filter operands, parentheses, logical chains, recursive descents, unions.
func (g *G) deepString() string {
	n := 2 + g.intn("depth", 30)
	rep := func(s string, k int) string { return strings.Repeat(s, k) }
	var s string
	switch g.intn("deepkind", 11) {
	case 8:
		s = "$[?(@" + rep("['a','b']", n) + ")]"
	case 9:
		s = "$" + rep("['a','b']", n) + ".g1()"
	case 10:
		s = "$[?(@" + rep("[*,*]", n) + " && $" + rep("..a", n/2) + ")]"
	case 0:
		s = "$" + rep("[?(@.a", n) + rep(")]", n)
	case 1:
		s = "$" + rep("[?(@.a[?(@.b == 1)]", n/2+1) + rep(")]", n/2+1)
	case 2:
		s = "$[?(" + rep("(", n) + "@.a == 1" + rep(")", n) + ")]"
	case 3:
		s = "$[?(@.a" + rep(" && @.a", n) + ")]"
	case 4:
		s = "$[?(@.a == 1" + rep(" || @.b == 2 && @.c", n/2) + ")]"
	case 5:
		s = "$" + rep("..a", n) + rep("[*]", n/2)
	case 6:
		s = "$[0" + rep(",1:2", n) + "]"
	default:
		s = "$" + rep("[?($.a", n) + rep(")]", n-1) // unbalanced on purpose
	}
	if g.chance("deepmut", 30) {
		s = g.mutate(s, 1)
	}
	return s
}

var unicodePool = []rune{'a', 'é', 'ß', '中', '😀', 0xFFFD, 0xFFFF, 0x10000, 0x10FFFF, 0x7F, 0x80, 0x00, 0x1F, ' ', '\t', '\n', '\\', '\'', '"', '$', '@', '.', '[', ']', '(', ')', '*', '?', '/', '%', 0xFEFF}

// mutate applies n character- or token-level edits.
func (g *G) mutate(s string, n int) string {
	r := []rune(s)
	for i := 0; i < n; i++ {
		pos := 0
		if len(r) > 0 {
			pos = g.intn("mpos", len(r)+1)
		}
		switch g.intn("mop", 8) {
		case 0: // delete a character
			if pos < len(r) {
				r = append(r[:pos:pos], r[pos+1:]...)
			}
		case 1: // insert a vocabulary token
			tok := []rune(Vocabulary[g.intn("tok", len(Vocabulary))])
			r = append(r[:pos:pos], append(tok, r[pos:]...)...)
		case 2: // replace a character by a pool character
			if pos < len(r) {
				r[pos] = unicodePool[g.intn("uc", len(unicodePool))]
			}
		case 3: // duplicate a character
			if pos < len(r) {
				r = append(r[:pos+1:pos+1], r[pos:]...)
			}
		case 4: // transpose
			if pos+1 < len(r) {
				r[pos], r[pos+1] = r[pos+1], r[pos]
			}
		case 5: // insert a pool character
			c := unicodePool[g.intn("uc2", len(unicodePool))]
			r = append(r[:pos:pos], append([]rune{c}, r[pos:]...)...)
		case 6: // delete a span
			end := pos + g.intn("span", 6)
			if end > len(r) {
				end = len(r)
			}
			r = append(r[:pos:pos], r[end:]...)
		case 7: // replace an integer literal by a boundary spelling
			str := string(r)
			if j := strings.IndexAny(str, "0123456789"); j >= 0 {
				k := j
				for k < len(str) && str[k] >= '0' && str[k] <= '9' {
					k++
				}
				str = str[:j] + BoundaryInts[g.intn("bi", len(BoundaryInts))] + str[k:]
				r = []rune(str)
			}
		}
	}
	return string(r)
}

// MutString draws one G-MUT string (<= 256 characters) and names its family.
func (g *G) MutString(corpus []string) (string, string) {
	var s, fam string
	switch k := g.intn("family", 100); {
	case k < 4:
		s, fam = g.deepString(), FamDeep
	case k < 14:
		p := g.Path()
		s, fam = Render(p, Canon).Text, FamRender
	case k < 24:
		p := g.Path()
		s, fam = Render(p, RapidStyle{T: g.T, Free: true}).Text, FamStyled
	case k < 46:
		p := g.Path()
		s = g.mutate(Render(p, Canon).Text, 1+g.intn("nmut", 3))
		fam = FamMutGen
	case k < 70 && len(corpus) > 0:
		s = g.mutate(corpus[g.intn("corp", len(corpus))], 1+g.intn("nmut", 3))
		fam = FamMutCorp
	case k < 82:
		n := 1 + g.intn("ntok", 10)
		var sb strings.Builder
		for i := 0; i < n; i++ {
			sb.WriteString(Vocabulary[g.intn("tok", len(Vocabulary))])
		}
		s, fam = sb.String(), FamSoup
	case k < 88:
		n := g.intn("nuni", 12)
		var sb strings.Builder
		for i := 0; i < n; i++ {
			sb.WriteRune(unicodePool[g.intn("uc", len(unicodePool))])
		}
		s, fam = sb.String(), FamUnicode
	case k < 93:
		b := rapid.SliceOfN(rapid.Byte(), 0, 24).Draw(g.T, "bytes")
		s, fam = string(b), FamBytes
		if g.chance("prefix", 50) {
			s = "$." + s
		}
	default:
		forms := []string{"$[%]", "$[%:]", "$[:%]", "$[::%]", "$[%:%:%]", "$[0,%]", "$..[%]", "$[?(@.a == %)]", "$[?(@[%] > %)]", "$[?(% < @.a)]", "$[%,%:%]"}
		f := forms[g.intn("form", len(forms))]
		for strings.Contains(f, "%") {
			f = strings.Replace(f, "%", BoundaryInts[g.intn("bi", len(BoundaryInts))], 1)
		}
		s, fam = f, FamBigInt
	}
	if r := []rune(s); len(r) > 256 {
		s = string(r[:256])
	}
	return s, fam
}

// MutateText applies 1-3 random edits to a path text.
func (g *G) MutateText(s string) string {
	out := g.mutate(s, 1+g.intn("nmut", 3))
	if r := []rune(out); len(r) > 256 {
		out = string(r[:256])
	}
	return out
}

// TwinText returns a path text that differs from text by one character: a blank dropped (blanks
// inside quoted names, string literals and regular expressions are significant) or added, a
// letter's case flipped, one character doubled or removed. It need not be a valid path.
func TwinText(t *rapid.T, text string) string {
	r := []rune(text)
	if len(r) == 0 {
		return " "
	}
	var blanks []int
	for i, c := range r {
		if c == ' ' {
			blanks = append(blanks, i)
		}
	}
	op := Uniform(t, "twinop", 6)
	if len(blanks) > 0 && op <= 2 {
		i := blanks[Uniform(t, "twinblank", len(blanks))]
		return string(r[:i]) + string(r[i+1:])
	}
	i := Uniform(t, "twinpos", len(r))
	switch op {
	case 0, 1, 3:
		return string(r[:i]) + " " + string(r[i:])
	case 2, 4:
		c := r[i]
		switch {
		case unicode.IsLower(c):
			c = unicode.ToUpper(c)
		case unicode.IsUpper(c):
			c = unicode.ToLower(c)
		default:
			return string(r[:i]) + string(r[i+1:])
		}
		out := append([]rune{}, r...)
		out[i] = c
		return string(out)
	}
	return string(r[:i]) + string(r[i]) + string(r[i:])
}
