package gen

import (
	"encoding/json"
	"errors"
	"time"

	"github.com/AsaiYusuke/jsonpath"
)

// Non-JSON Go values (G-NONJSON, C20). Each tag always builds the same kind of value.
// Reference-like values (func, chan, map, slice, pointer) are shared singletons per tag so
// that identity can be compared; they are never written to by the harness.

type opaqueStruct struct {
	A int
	B string
}

type namedMap map[string]interface{}
type namedSlice []interface{}

// defined types whose underlying kind is a JSON scalar kind: still not what encoding/json
// produces, so still opaque (a filter literal 1.5 does not match namedFloat(1.5))
type namedFloat float64
type namedString string
type namedBool bool

var (
	opStructPtr = &opaqueStruct{A: 7, B: "p"}
	opFunc      = func() {}
	opChan      = make(chan int)
	opMapInt    = map[string]int{"a": 1}
	opMapStr    = map[string]string{"a": "x"}
	opNamedMap  = namedMap{"a": 1.0}
	opIntSlice  = []int{1, 2}
	opStrSlice  = []string{"a"}
	opNamedSl   = namedSlice{1.0, "a"}
	opBytes     = []byte("ab")
	opErr       = errors.New("opaque error value")
	opMapAny    = map[interface{}]interface{}{1: 2}
	opMapList   = []map[string]interface{}{{"a": 1.0}, {"a": 2.0, "b": "x"}}
	opIface     = interface{}(map[string]interface{}{"a": 1.0})
	opRaw       = json.RawMessage(`{"a":1}`)
)

// OpaqueTags lists the catalogue.
var OpaqueTags = []string{
	"struct{}", "struct", "*struct", "nil*struct", "map[string]int", "map[string]string",
	"namedMap", "[]int", "[]string", "namedSlice", "[2]int", "int", "int64", "uint8",
	"float32", "complex128", "func()", "chan int", "[]byte", "error", "time.Duration",
	"map[interface{}]interface{}", "[]map[string]interface{}", "*interface{}", "nil*interface{}", "nilmap", "nilslice",
	"namedFloat", "namedString", "namedBool", "json.RawMessage",
	"Accessor{}", "map[string]float64", "raw-number", "raw-array", "*[]interface{}", "*map",
	"anon-struct", "[]anon-struct", "map-of-*anon-struct",
	"empty[]int", "empty[]string", "empty-namedSlice", "*struct{}", "*[0]int",
}

// ZeroSizeTags are non-nil values of different Go types whose storage is zero bytes long: the Go
// runtime gives all of them one and the same address. They are different values all the same.
var ZeroSizeTags = []string{"empty[]int", "empty[]string", "empty-namedSlice", "*struct{}", "*[0]int"}

func IsZeroSizeTag(tag string) bool {
	for _, t := range ZeroSizeTags {
		if t == tag {
			return true
		}
	}
	return false
}

// WrapTags are opaque values that hold a document of their own: a pointer to it, an Accessor
// whose Get returns it, its JSON text as a json.RawMessage. To the library they are leaves like
// any other non-JSON value; what is behind them is none of its business.
var WrapTags = []string{"wrap:*interface{}", "wrap:*container", "wrap:Accessor", "wrap:RawMessage"}

// Wrap wraps inner.
func Wrap(tag string, inner *DNode) *DNode {
	return &DNode{K: DOpaque, Tag: tag, Kids: []*DNode{inner}}
}

// WrapValue builds the Go value of a wrapper node around the built inner value.
func WrapValue(tag string, inner interface{}) interface{} {
	switch tag {
	case "wrap:*interface{}":
		return &inner
	case "wrap:*container":
		switch t := inner.(type) {
		case map[string]interface{}:
			return &t
		case []interface{}:
			return &t
		}
		return &inner
	case "wrap:Accessor":
		return jsonpath.Accessor{Get: func() interface{} { return inner }, Set: func(interface{}) {}}
	case "wrap:RawMessage":
		b, err := json.Marshal(rawable(inner))
		if err != nil {
			b = []byte("null")
		}
		return json.RawMessage(b)
	}
	panic("harness bug: unknown wrapper tag " + tag)
}

// rawable replaces values json.Marshal cannot render by null.
func rawable(v interface{}) interface{} {
	switch t := v.(type) {
	case map[string]interface{}:
		m := map[string]interface{}{}
		for k, c := range t {
			m[k] = rawable(c)
		}
		return m
	case []interface{}:
		a := make([]interface{}, len(t))
		for i, c := range t {
			a[i] = rawable(c)
		}
		return a
	case nil, bool, float64, string, json.Number:
		return v
	}
	return nil
}

var (
	opAnonSlice = []struct{ X, Y int }{{1, 2}}
	opAnonMap   = map[string]*struct{ Name string }{"a": {Name: "n"}}
	opMapFloat  = map[string]float64{"a": 1, "b": 2}
	opRawNum    = json.RawMessage(`1`)
	opRawArr    = json.RawMessage(`[1,{"a":1}]`)
	opSliceVal  = []interface{}{1.0, map[string]interface{}{"a": 1.0}}
	opMapVal    = map[string]interface{}{"a": 1.0, "b": map[string]interface{}{"a": 2.0}}
)

// OpaqueValue builds the Go value for a tag.
func OpaqueValue(tag string) interface{} {
	switch tag {
	case "struct{}":
		return struct{}{}
	case "struct":
		return opaqueStruct{A: 1, B: "s"}
	case "*struct":
		return opStructPtr
	case "nil*struct":
		return (*opaqueStruct)(nil)
	case "map[string]int":
		return opMapInt
	case "map[string]string":
		return opMapStr
	case "namedMap":
		return opNamedMap
	case "[]int":
		return opIntSlice
	case "[]string":
		return opStrSlice
	case "namedSlice":
		return opNamedSl
	case "[2]int":
		return [2]int{1, 2}
	case "int":
		return int(1)
	case "int64":
		return int64(1)
	case "uint8":
		return uint8(1)
	case "float32":
		return float32(1)
	case "complex128":
		return complex(1, 2)
	case "func()":
		return opFunc
	case "chan int":
		return opChan
	case "[]byte":
		return opBytes
	case "error":
		return opErr
	case "time.Duration":
		return time.Duration(1)
	case "map[interface{}]interface{}":
		return opMapAny
	case "[]map[string]interface{}":
		return opMapList
	case "*interface{}":
		return &opIface
	case "nil*interface{}":
		return (*interface{})(nil)
	case "nilmap":
		return map[string]interface{}(nil) // a JSON-typed container that happens to be nil
	case "nilslice":
		return []interface{}(nil)
	case "namedFloat":
		return namedFloat(1)
	case "namedString":
		return namedString("a")
	case "namedBool":
		return namedBool(true)
	case "json.RawMessage":
		return opRaw
	case "anon-struct":
		return struct{ X, Y int }{1, 2}
	case "[]anon-struct":
		return opAnonSlice
	case "map-of-*anon-struct":
		return opAnonMap
	case "Accessor{}":
		return jsonpath.Accessor{}
	case "map[string]float64":
		return opMapFloat
	case "raw-number":
		return opRawNum
	case "raw-array":
		return opRawArr
	case "*[]interface{}":
		return &opSliceVal
	case "*map":
		return &opMapVal
	case "empty[]int":
		return make([]int, 0)
	case "empty[]string":
		return make([]string, 0)
	case "empty-namedSlice":
		return namedSlice{}
	case "*struct{}":
		return &struct{}{}
	case "*[0]int":
		return &[0]int{}
	}
	if len(tag) > 5 && tag[:5] == "wrap:" {
		return WrapValue(tag, nil) // a wrapper whose content was trimmed away
	}
	panic("harness bug: unknown opaque tag " + tag)
}
