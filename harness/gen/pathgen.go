package gen

import (
	"encoding/json"
	"math"
	"regexp"
	"strings"

	"pgregory.net/rapid"
)

// Keys is the shared key alphabet: small, so random documents hit, but covering dot-illegal,
// escaped, non-ASCII and astral keys.
var Keys = []string{"a", "b", "c", "d", "aa", "0", "a b", "é", "😀", "a.b", "", "'", "\"", "x\\y", "-", "a\tb", "\n", "é.b", "名 前", "ü-ö$x", "ab", "’", "A", "x\\'y", "\\\"", "\\", "�A", "�", "100%", "%s", "*", "@", "a ", " ", " a", "b  "}
var keyWeights = []int{12, 10, 8, 4, 3, 3, 2, 2, 1, 2, 1, 1, 1, 1, 1, 1, 1, 2, 1, 1, 2, 1, 1, 1, 1, 1, 1, 1, 1, 1, 1, 1, 2, 1, 1, 1}

var keyGen = weighted(Keys, keyWeights)

func weighted(vals []string, w []int) *rapid.Generator[string] {
	var pool []string
	for i, v := range vals {
		for k := 0; k < w[i]; k++ {
			pool = append(pool, v)
		}
	}
	return rapid.SampledFrom(pool)
}

// PathOpts controls G-AST.
type PathOpts struct {
	MaxSteps       int  // main path steps (default 5)
	FilterDepth    int  // nested filter levels allowed (default 2)
	LogicDepth     int  // logical nesting (default 3)
	Funcs          bool // allow functions (trailing, and in operands)
	NoDollar       bool // no "$"-rooted operands
	NoAgg          bool // no aggregate functions
	NoFilter       bool
	BigInts        bool // indexes / slice bounds at integer extremes
	FilterHeavy    bool // more filters, more == != && || !
	RootOmit       bool // allow root-omitted top-level paths
	MinSteps       int
	FuncPct        int  // chance of each trailing function on the main path (default 45)
	OperandFuncPct int  // chance of a function on an operand path (default 12)
	LongPaths      bool // 3 % of the paths have 6..16 steps
	NoDeepDocs     bool // no deep spines in the documents (checks whose cost multiplies with the depth)
	ReuseFuncs     bool // a function name may occur several times in one path (default: each name once, so that a name identifies an occurrence)
}

// G is a generation context: it hands out each function name at most once per case so
// that a function name identifies one occurrence in the path.
type G struct {
	T        *rapid.T
	O        PathOpts
	filters  []string
	aggs     []string
	DocKind  string // how the last document was drawn: directed | perturbed | free
	recs     int    // recursive-descent steps handed out so far (whole path incl. operands)
	depth    int    // current operand nesting
	deepUsed bool   // a deep spine (Deep) has been handed out for this case
}

// Evaluation cost is polynomial in the document size with one degree per recursive descent
// (and per nested filter that re-evaluates a "$.."-operand for every member), so the number
// of ".." steps per generated path is bounded: 3 overall, 1 inside filter operands.
const maxRecs = 3

// NewG creates a context.
func NewG(t *rapid.T, o PathOpts) *G {
	if o.MaxSteps == 0 {
		o.MaxSteps = 5
	}
	if o.FilterDepth == 0 {
		o.FilterDepth = 2
	}
	if o.LogicDepth == 0 {
		o.LogicDepth = 3
	}
	g := &G{T: t, O: o}
	if o.Funcs {
		g.filters = append([]string(nil), FilterNames...)
		if !o.NoAgg {
			g.aggs = append([]string(nil), AggNames...)
		}
	}
	return g
}

// Uniform draws a number in [0,n) with a (nearly) uniform distribution. rapid's integer
// generators are deliberately biased towards small magnitudes, which would turn every
// "12 %" into "45 %"; the bias is removed by mixing the drawn word. mix(0) = 0, so the
// shrinker's favourite value still means "first choice".
func Uniform(t *rapid.T, label string, n int) int {
	if n <= 1 {
		return 0
	}
	x := rapid.Uint64().Draw(t, label)
	x ^= x >> 30
	x *= 0xbf58476d1ce4e5b9
	x ^= x >> 27
	x *= 0x94d049bb133111eb
	x ^= x >> 31
	return int(x % uint64(n))
}

func (g *G) intn(label string, n int) int { return Uniform(g.T, label, n) }
func (g *G) chance(label string, pct int) bool {
	return Uniform(g.T, label, 100) < pct
}

func (g *G) key() string { return keyGen.Draw(g.T, "key") }

func (g *G) quote() Notation {
	if g.chance("dq", 35) {
		return NDQ
	}
	return NSQ
}

// syntaxKeys are member names that read like pieces of the path syntax.
var syntaxKeys = []string{"*", "*", "*", "@", "$", "..", "0", "a"}

var smallInts = []int{0, 0, 1, 1, 2, 3, -1, -1, -2, -3, 4, 5, 7, -7, 8, 10, 12, -10}
var bigInts = []int{math.MaxInt64, math.MinInt64, math.MaxInt64 - 1, math.MinInt64 + 1, 1 << 31, -(1 << 31), 1<<31 - 1, 1 << 32, 1 << 62, -(1 << 62)}

func (g *G) integer() int {
	if g.O.BigInts && g.chance("big", 25) {
		return bigInts[g.intn("bigi", len(bigInts))]
	}
	return smallInts[g.intn("int", len(smallInts))]
}

func (g *G) optInt(pctOmitted int) *int {
	if g.chance("omit", pctOmitted) {
		return nil
	}
	v := g.integer()
	return &v
}

func (g *G) slice() Sub {
	s := Sub{Kind: KSlice, Start: g.optInt(35), End: g.optInt(35)}
	if g.chance("twopart", 45) {
		s.TwoPart = true
	} else {
		s.Step = g.optInt(25)
	}
	return s
}

func (g *G) sub() Sub {
	switch g.intn("subkind", 5) {
	case 0, 1:
		return Sub{Kind: KIndex, N: g.integer()}
	case 2, 3:
		return g.slice()
	}
	return Sub{Kind: KWild}
}

// Step draws one non-function step. group=false restricts to single-valued steps.
func (g *G) Step(filterDepth int, group bool, first bool) Step {
	type choice struct {
		k StepKind
		w int
	}
	choices := []choice{{KName, 34}, {KIndex, 12}}
	if group {
		choices = append(choices, choice{KWild, 12}, choice{KMulti, 8}, choice{KSlice, 8}, choice{KUnion, 6})
		if filterDepth > 0 && !g.O.NoFilter {
			w := 16
			if g.O.FilterHeavy {
				w = 40
			}
			choices = append(choices, choice{KFilter, w})
		}
	}
	total := 0
	for _, c := range choices {
		total += c.w
	}
	r := g.intn("stepkind", total)
	kind := KName
	for _, c := range choices {
		if r < c.w {
			kind = c.k
			break
		}
		r -= c.w
	}
	s := Step{Kind: kind}
	if group && !first && g.chance("rec", 12) && g.recs < maxRecs && !(g.depth > 0 && g.recs >= 1) {
		s.Rec = true
		g.recs++
	}
	switch kind {
	case KName:
		s.Key = g.key()
		switch {
		case DotLegal(s.Key) && g.chance("dot", 65):
			s.Not = NDot
		default:
			s.Not = g.quote()
		}
	case KWild:
		if g.chance("dotwild", 55) {
			s.Not = NDot
		} else {
			s.Not = NSQ
		}
	case KMulti:
		n := 2 + g.intn("nent", 3)
		allWild := g.chance("allwild", 12)
		if !allWild && g.chance("tokennames", 6) {
			// every entry a quoted name that reads like a piece of syntax (repeats welcome): '*' is a
			// member name here, not a wildcard
			for i := 0; i < n; i++ {
				s.Ent = append(s.Ent, MultiEntry{Key: syntaxKeys[g.intn("tokenkey", len(syntaxKeys))], Q: g.quote()})
			}
			break
		}
		for i := 0; i < n; i++ {
			if allWild || g.chance("entwild", 15) {
				s.Ent = append(s.Ent, MultiEntry{Wild: true})
			} else {
				s.Ent = append(s.Ent, MultiEntry{Key: g.key(), Q: g.quote()})
			}
		}
	case KIndex:
		s.Sub = []Sub{{Kind: KIndex, N: g.integer()}}
	case KSlice:
		s.Sub = []Sub{g.slice()}
	case KUnion:
		n := 2 + g.intn("nsub", 3)
		for i := 0; i < n; i++ {
			s.Sub = append(s.Sub, g.sub())
		}
		// "[*,*]" is, textually, a multi-name selector of wildcards (it also applies to objects)
		onlyWild := true
		for i := range s.Sub {
			onlyWild = onlyWild && s.Sub[i].Kind == KWild
		}
		if onlyWild {
			s.Kind = KMulti
			for range s.Sub {
				s.Ent = append(s.Ent, MultiEntry{Wild: true})
			}
			s.Sub = nil
		}
	case KFilter:
		ld := g.O.LogicDepth
		if ld > filterDepth+1 {
			ld = filterDepth + 1
		}
		s.Q = g.Query(ld, filterDepth-1)
	}
	return s
}

func (g *G) takeFilterFn() (string, bool) {
	if len(g.filters) == 0 {
		return "", false
	}
	i := g.intn("ffn", len(g.filters))
	n := g.filters[i]
	if !g.O.ReuseFuncs {
		g.filters = append(g.filters[:i:i], g.filters[i+1:]...)
	}
	return n, true
}

func (g *G) takeAggFn() (string, bool) {
	if len(g.aggs) == 0 {
		return "", false
	}
	i := g.intn("afn", len(g.aggs))
	n := g.aggs[i]
	if !g.O.ReuseFuncs {
		g.aggs = append(g.aggs[:i:i], g.aggs[i+1:]...)
	}
	return n, true
}

// funcs appends 0..max trailing functions. If mustSingle, the path must end single-valued
// (an aggregate is forced after a value-group prefix).
func (g *G) funcs(steps []Step, max int, pct int) []Step {
	mainPath := g.depth == 0
	for i := 0; i < max; i++ {
		if !g.chance("fn", pct) {
			break
		}
		if g.chance("agg", 40) {
			if n, ok := g.takeAggFn(); ok {
				steps = append(steps, Step{Kind: KFunc, Fn: n, Agg: true})
				continue
			}
		}
		if n, ok := g.takeFilterFn(); ok {
			if n == "fnan" && mainPath {
				n = "f1" // NaN must never become a result (results are compared with DeepEqual)
				if !g.O.ReuseFuncs {
					continue
				}
			}
			steps = append(steps, Step{Kind: KFunc, Fn: n})
		}
	}
	return steps
}

// Path draws a top-level path.
func (g *G) Path() *Path {
	p := &Path{Root: RootDollar}
	n := g.O.MinSteps + g.intn("nsteps", g.O.MaxSteps-g.O.MinSteps+1)
	long := false
	if g.O.LongPaths && g.chance("longpath", 3) {
		// a path far beyond the usual five steps; at most three of its steps may multiply the
		// number of selected values (multi-name, union), the others select at most what the
		// document holds, so that the result stays bounded by the document size
		n = 6 + g.intn("longsteps", 11)
		long = true
	}
	fan := 0
	for i := 0; i < n; i++ {
		st := g.Step(g.O.FilterDepth, true, false)
		if long && (st.Kind == KMulti || st.Kind == KUnion) {
			fan++
			if fan > 3 {
				st = g.Step(g.O.FilterDepth, false, false)
			}
		}
		p.Steps = append(p.Steps, st)
	}
	if g.O.Funcs {
		pct := g.O.FuncPct
		if pct == 0 {
			pct = 45
		}
		p.Steps = g.funcs(p.Steps, 3, pct)
	}
	if g.O.RootOmit && len(p.Steps) > 0 && omittable(&p.Steps[0]) && g.chance("omitroot", 8) {
		p.Root = RootOmitted
	}
	return p
}

func (g *G) operandFuncPct() int {
	if g.O.OperandFuncPct > 0 {
		return g.O.OperandFuncPct
	}
	return 12
}

// OperandPath draws an operand path. group=false gives a path legal in comparisons.
func (g *G) OperandPath(filterDepth int, group bool) *Path {
	g.depth++
	defer func() { g.depth-- }()
	p := &Path{Root: RootAt}
	if !g.O.NoDollar && g.chance("dollar", 22) {
		p.Root = RootDollar
	}
	n := g.intn("opsteps", 4)
	if p.Root == RootAt && n == 0 && g.chance("bare@", 70) {
		n = 1
	}
	if group {
		for i := 0; i < n; i++ {
			p.Steps = append(p.Steps, g.Step(filterDepth, g.chance("groupstep", 35), false))
		}
		if g.O.Funcs {
			p.Steps = g.funcs(p.Steps, 2, g.operandFuncPct())
		}
		return p
	}
	// comparison operand: single-valued, or a value-group prefix closed by an aggregate
	if g.O.Funcs && len(g.aggs) > 0 && g.chance("aggoperand", 8) {
		for i := 0; i < n; i++ {
			p.Steps = append(p.Steps, g.Step(filterDepth, true, false))
		}
		if name, ok := g.takeAggFn(); ok {
			p.Steps = append(p.Steps, Step{Kind: KFunc, Fn: name, Agg: true})
			p.Steps = g.funcs(p.Steps, 1, 20)
			return p
		}
		// the nested steps used up the aggregate names: fall back to a single-valued operand
		p.Steps = nil
	}
	for i := 0; i < n; i++ {
		p.Steps = append(p.Steps, g.Step(0, false, false))
	}
	if g.O.Funcs {
		p.Steps = g.funcs(p.Steps, 2, g.operandFuncPct())
	}
	return p
}

var numLits = []string{"0", "1", "2", "-1", "1.5", "10", "1e2", "2.0", "+1", "-0.5", "100", "3", "9007199254740993", "-0", "0x1p1", "0X1P-1", "-0x.8p1", "0x1.8p+0", "1E+2", "10e-1"}
var strLits = []string{"a", "b", "", "1", "a b", "é", "it's", "say \"hi\"", "x\\y", "true", "null", "ab", "it’s", "50%", "%d"}
var regexes = []string{"a", "^a", "b$", "[ab]+", "(?i)A", "a|b", ".", "a/b", `\d+`, "^$", "é", `\\`, "^(a b|1)$", "a b", "ab", "^", "$", "a $", "^a$", "^ab$", `\Aa\z`, "^a", "b$", "^[0-9]+%$", "%v"}

// Literal draws a literal operand; numeric restricts it to numbers.
func (g *G) Literal(numeric bool) *Operand {
	k := 0
	if !numeric {
		k = g.intn("litkind", 10)
	}
	switch {
	case k < 4:
		return &Operand{IsLit: true, LK: LNum, Num: numLits[g.intn("num", len(numLits))]}
	case k < 7:
		return &Operand{IsLit: true, LK: LStr, Str: strLits[g.intn("str", len(strLits))], SQ: g.chance("sq", 50)}
	case k < 9:
		return &Operand{IsLit: true, LK: LBool, Bool: g.chance("bool", 50)}
	}
	return &Operand{IsLit: true, LK: LNull}
}

var ops = []string{"==", "!=", "<", "<=", ">", ">="}

// Cmp draws a comparison that respects the documented restrictions.
func (g *G) Cmp(filterDepth int) *Query {
	op := ops[g.intn("op", len(ops))]
	if g.O.FilterHeavy && g.chance("eqne", 50) {
		op = ops[g.intn("op2", 2)]
	}
	numeric := op != "==" && op != "!="
	q := &Query{Kind: QCmp, Op: op}
	// operand kinds: 0 literal, 1 path
	shape := g.intn("shape", 10)
	switch {
	case shape < 5: // path op literal
		q.A = &Operand{P: g.OperandPath(filterDepth, false)}
		q.B = g.Literal(numeric)
	case shape < 7: // literal op path
		q.A = g.Literal(numeric)
		q.B = &Operand{P: g.OperandPath(filterDepth, false)}
	case shape < 9: // path op path (not two "@")
		a, b := g.OperandPath(filterDepth, false), g.OperandPath(filterDepth, false)
		if a.Root == RootAt && b.Root == RootAt {
			if g.O.NoDollar {
				q.A = &Operand{P: a}
				q.B = g.Literal(numeric)
				return q
			}
			if g.chance("which", 50) {
				a.Root = RootDollar
			} else {
				b.Root = RootDollar
			}
		}
		q.A, q.B = &Operand{P: a}, &Operand{P: b}
	default: // literal op literal
		q.A, q.B = g.Literal(numeric), g.Literal(numeric)
	}
	return q
}

// Atom draws an existence test, comparison or regex test.
func (g *G) Atom(filterDepth int) *Query {
	r := g.intn("atom", 100)
	switch {
	case r < 32:
		return &Query{Kind: QExists, Not: g.chance("neg", 25), P: g.OperandPath(filterDepth, true)}
	case r < 88:
		return g.Cmp(filterDepth)
	}
	return &Query{Kind: QRegex, P: g.OperandPath(filterDepth, false), Re: regexes[g.intn("re", len(regexes))]}
}

// Query draws a filter expression with the grammar's associativity made explicit:
// the right child of || is never ||, children of && are never || (parenthesised instead),
// the right child of && is never &&.
// variantOf copies an atom and changes one thing (a name in an operand path, the literal, or
// the operator): siblings of a logical operator that look alike are what an optimiser would
// try to merge.
func (g *G) variantOf(q *Query) *Query {
	b, _ := json.Marshal(q)
	var c Query
	if json.Unmarshal(b, &c) != nil {
		return q
	}
	// blankTwin drops the blanks of a text, or puts one into the middle of a text without any:
	// blanks inside names, string literals and regular expressions are significant
	blankTwin := func(t string) string {
		if strings.Contains(t, " ") {
			return strings.ReplaceAll(t, " ", "")
		}
		if r := []rune(t); len(r) >= 2 {
			return string(r[:len(r)/2]) + " " + string(r[len(r)/2:])
		}
		return t
	}
	rename := func(p *Path) bool {
		for i := range p.Steps {
			if p.Steps[i].Kind == KName {
				old := p.Steps[i].Key
				if g.chance("blankkey", 30) {
					p.Steps[i].Key = blankTwin(old)
				}
				for try := 0; try < 4 && p.Steps[i].Key == old; try++ {
					p.Steps[i].Key = g.key()
				}
				if p.Steps[i].Not == NDot && !DotLegal(p.Steps[i].Key) {
					p.Steps[i].Not = NSQ
				}
				return true
			}
		}
		return false
	}
	switch c.Kind {
	case QExists, QRegex:
		if c.Kind == QRegex && g.chance("blankre", 40) {
			if t := blankTwin(c.Re); t != c.Re {
				if _, err := regexp.Compile(t); err == nil {
					c.Re = t
					return &c
				}
			}
		}
		if !rename(c.P) {
			c.P.Steps = append([]Step{{Kind: KName, Key: g.key(), Not: NSQ}}, c.P.Steps...)
		}
	case QCmp:
		if g.chance("guard", 20) {
			// the existence test of an operand the comparison reads ("@.p && @.p == $.q")
			for _, o := range []*Operand{c.A, c.B} {
				if !o.IsLit && o.P != nil && o.P.Root == RootAt {
					return &Query{Kind: QExists, P: o.P}
				}
			}
		}
		switch g.intn("variantkind", 3) {
		case 0:
			for _, o := range []*Operand{c.A, c.B} {
				if !o.IsLit && rename(o.P) {
					return &c
				}
			}
			fallthrough
		case 1:
			for _, o := range []*Operand{c.B, c.A} {
				if o.IsLit {
					if o.LK == LStr && g.chance("blanklit", 50) {
						if t := blankTwin(o.Str); t != o.Str {
							o.Str = t
							return &c
						}
					}
					*o = *g.Literal(c.Op != "==" && c.Op != "!=")
					return &c
				}
			}
			fallthrough
		default:
			if c.Op == "==" || c.Op == "!=" {
				c.Op = map[string]string{"==": "!=", "!=": "=="}[c.Op]
			} else {
				c.Op = []string{"<", "<=", ">", ">="}[g.intn("variantop", 4)]
			}
		}
	}
	return &c
}

func isAtom(q *Query) bool { return q.Kind == QExists || q.Kind == QCmp || q.Kind == QRegex }

func (g *G) Query(logicDepth, filterDepth int) *Query {
	if logicDepth <= 0 {
		return g.Atom(filterDepth)
	}
	r := g.intn("qkind", 100)
	heavy := 0
	if g.O.FilterHeavy {
		heavy = 15
	}
	switch {
	case r < 16+heavy:
		l, rr := g.Query(logicDepth-1, filterDepth), g.Query(logicDepth-1, filterDepth)
		if isAtom(l) && g.chance("sibling", 30) {
			rr = g.variantOf(l)
		}
		if l.Kind == QOr {
			l = &Query{Kind: QParen, L: l}
		}
		if rr.Kind == QOr || rr.Kind == QAnd {
			rr = &Query{Kind: QParen, L: rr}
		}
		return &Query{Kind: QAnd, L: l, R: rr}
	case r < 30+2*heavy:
		l, rr := g.Query(logicDepth-1, filterDepth), g.Query(logicDepth-1, filterDepth)
		if isAtom(l) && g.chance("sibling", 30) {
			rr = g.variantOf(l)
		}
		if rr.Kind == QOr {
			rr = &Query{Kind: QParen, L: rr}
		}
		return &Query{Kind: QOr, L: l, R: rr}
	case r < 38+2*heavy:
		return &Query{Kind: QParen, L: g.Query(logicDepth-1, filterDepth)}
	}
	return g.Atom(filterDepth)
}

// RapidStyle is a Style whose choices are rapid draws.
type RapidStyle struct {
	T    *rapid.T
	Free bool
}

func (s RapidStyle) Pick(slot string, n int) int { return Uniform(s.T, slot, n) }
func (s RapidStyle) Vary() bool                  { return s.Free }
