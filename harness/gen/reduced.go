package gen

// ReducedSentences enumerates the bounded-exhaustive reduced grammar of DESIGN §3.2 G-MUT (a):
// every sequence of <= 3 steps over a fixed set of step forms, every single comparison
// [?(L op R)] over the operand forms x operators x both orders, existence tests with and
// without "!", and the two-term && / || combinations of a small atom set. Deterministic.
func ReducedSentences() []string {
	steps := []string{
		".a", "['a']", `["b"]`, ".*", "[*]", "['a','b']", "[*,*]", "[0]", "[-1]", "[0:2]", "[::-1]",
		"[0,1]", "[?(@.a)]", "..a", "..[0]", "..*", ".f1()", ".g1()",
	}
	var out []string
	for _, a := range steps {
		out = append(out, "$"+a)
		for _, b := range steps {
			out = append(out, "$"+a+b)
			for _, c := range steps {
				out = append(out, "$"+a+b+c)
			}
		}
	}
	operands := []string{"1", "'a'", "true", "null", "@", "@.a", "$.a", "@.*", "@.f1()", "@.*.g1()", "@.g1().g1()", "$", "$..a", "@[0]", "-0.5e1"}
	opsAll := []string{"==", "!=", "<", "<=", ">", ">="}
	for _, l := range operands {
		for _, r := range operands {
			for _, op := range opsAll {
				out = append(out, "$[?("+l+" "+op+" "+r+")]")
				out = append(out, "$[?("+l+op+r+")]")
			}
		}
		out = append(out, "$[?("+l+" =~ /a/)]")
		out = append(out, "$[?("+l+"=~/[/)]")
		for _, re := range TrickyRegexes {
			out = append(out, "$[?("+l+" =~ /"+re+"/)]")
		}
		out = append(out, "$[?("+l+")]")
		out = append(out, "$[?(!"+l+")]")
		out = append(out, "$[?(! "+l+")]")
	}
	// a function name is what was registered, letter for letter
	for _, n := range []string{"F1", "G1", "Fre", "FNEST", "f1 ", "F2", "gID"} {
		out = append(out, "$.a."+n+"()", "$.*."+n+"()", "$[?(@.a."+n+"() == 1)]")
	}
	// names a library might be tempted to know by itself: only registered functions exist
	for _, n := range BuiltinLookingNames {
		out = append(out, "$.a."+n+"()", "$.*."+n+"()", "$[?(@.a."+n+"() == 1)]", "$.a.f1()."+n+"()")
	}
	// quoted names ending in / holding escapes at the edge of JSON's string syntax
	for _, q := range []string{`'`, `"`} {
		for _, body := range []string{`a\ud834`, `\udd1e`, `\ud834\udd1e`, `\ud834x`, `\ud834\u0041`, `a\"`, `a\'`, `\\'b`, `\\"b`, `a\\`, `\u00e9`, `\u12`, `\x41`, `\/`, `\b`, `\a`} {
			out = append(out, "$["+q+body+q+"]", "$..["+q+body+q+",'c']", "$[?(@["+q+body+q+"])]")
		}
	}
	// scripts are not supported, whatever stands between the parentheses
	for _, sc := range []string{"@.length", "@.length-1", "@.length - 1", " @.length ", "@.length-", "@.length+1", "@.len", "@", "1", "1+1", "$.a", "@.a.length", "length", "@.length()", "-1", "0", "''", "@.length-0"} {
		out = append(out, "$[("+sc+")]", "$.a[("+sc+")].b", "$..[("+sc+")]", "$[?(@.a[("+sc+")] == 1)]")
	}
	atoms := []string{"@.a", "!@.a", "$.a", "!$.a", "@.a == 1", "1 == 1", "1 == 2", "@.a != $.b", "@.a < 1", "$.a >= 1", "@.a =~ /a/", "(@.a)", "(@.a == 1)"}
	for _, a := range atoms {
		for _, b := range atoms {
			out = append(out, "$[?("+a+" && "+b+")]")
			out = append(out, "$[?("+a+" || "+b+")]")
			out = append(out, "$[?("+a+"&&"+b+")]")
		}
	}
	return out
}

// TrickyRegexes are regular expressions at the edge of Go's syntax (valid and invalid ones):
// the documented restriction is "valid for Go as written".
var TrickyRegexes = []string{"^", "$", "", "^$", "$^", " ", "^ ", "a b", `\/`, "a)(b", "x)|(y", "^1)$|^(2$", "(", ")", "a**", "(?s:a)", "(?i)a", `\`, "a{2,1}", "(?P<n>a)", `\pL`, "[[:alpha:]]", "(?<n>a)", "a{1001}", `\Qa.b\E`, "(?s).", `\z`, "[a-", "(?i", `\8`, "x*+"}

// Vocabulary is the terminal vocabulary of the grammar (token-level mutations, token soup).
var Vocabulary = []string{
	"$", "@", ".", "..", "*", "[", "]", "(", ")", "?(", "[?(", ")]", ",", ":", "'", "\"", "\\", "!", "&&", "||",
	"==", "!=", "<", "<=", ">", ">=", "=~", "/", "/a/", "=~/a)(b/", "=~ /x)|(y/", "=~/(/", "=~/)/", "=~/a{2,1}/", "=~/(?s:a)/", "()", ".f1()", ".g1()", ".unknown()", "true", "false", "null",
	"True", "NULL", "0", "1", "-1", "+1", "007", "1.5", "1e2", "0x10", "'a'", "\"a\"", "a", "b", " ", "  ", "\t", "\n",
	"\\u0041", "\\ud800", "\\n", "\\'", "\\\\", "é", "😀", "\x00", "\x7f", "[*]", "['a']", "[0]", "[0:1]", "[::2]", "[(1)]",
	"9223372036854775807", "-9223372036854775808", "9223372036854775808", "2147483648", "-2147483649", "99999999999999999999",
	"1e400", "['a','b']", "[?(@.a)]", "[?(@.a == 1)]", "@.a", "$.a", "..a", ".a",
	".F1()", ".G1()", ".Fre()", "%", "%s", "%d", "%!", "%%", "%v", "100%", "[(@.length)]", "[(@.length-1)]", "(@.length", "@.length", "[(", ")]", "[-0]", "[-0:]", "[:-0]", "-0", "-00",
	".count()", ".sum()", ".avg()", ".min()", ".max()", ".median()", ".length()", ".len()", ".size()", ".keys()", ".values()", ".first()", ".last()", ".type()", ".match()", ".value()",
	"0x1p4", "0X1P-2", "-0x.8p5", "0x1.8p+3", "0x10", "0x", "0x1p", "1_0", "0x1_0p0", "0b1", "0o7", "1e", "1.e1", "1E2", "1e+", "0Inf", "1NaN",
	"=~/^/", "=~/$/", "=~//", "=~ / /", "\\ud834'", "\\udd1e\"", "\\\"", "\\\\'", "‘", "’", "“", "”", "\u00a0", "\u3000", "\ufeff",
}

// BuiltinLookingNames are function names that sound built in (aggregates of other JSONPath
// dialects, RFC 9535 function extensions): none exists unless the Config registers it.
var BuiltinLookingNames = []string{"count", "sum", "avg", "min", "max", "median", "length", "len", "size", "keys", "values", "first", "last", "type", "match", "search", "value", "abs", "floor", "ceil", "concat", "append", "index", "distinct", "sort", "reverse", "tojson", "tostring"}

// BoundaryInts are integer literal spellings at and around the int limits (G-MUT (e)).
var BoundaryInts = []string{
	"2147483647", "2147483648", "-2147483648", "-2147483649", "4294967296",
	"9223372036854775806", "9223372036854775807", "9223372036854775808", "-9223372036854775807", "-9223372036854775808",
	"-9223372036854775809", "18446744073709551615", "18446744073709551616", "99999999999999999999", "-99999999999999999999",
	"+9223372036854775807", "0009223372036854775807", "-0", "+0", "00",
}
