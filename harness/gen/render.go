package gen

import (
	"fmt"
	"strconv"
	"strings"
	"unicode/utf8"
)

// Style makes the spelling choices the grammar declares free. The canonical style
// (Canon) always answers 0 / "".
type Style interface {
	// Pick returns a number in [0,n) for the named choice slot.
	Pick(slot string, n int) int
	// Vary reports whether AST-level notation (dot/bracket, quotes, $ omission) may be
	// re-chosen by the style instead of taken from the AST.
	Vary() bool
}

type canon struct{}

func (canon) Pick(string, int) int { return 0 }
func (canon) Vary() bool           { return false }

// Canon is the canonical style.
var Canon Style = canon{}

// StepText is what the renderer wrote for one step, and every text the library may use
// to name that step in a runtime error.
type StepText struct {
	Written string   // the step as written, e.g. ".a", "['a']", "[?(@.b)]", ".f()"
	Names   []string // texts acceptable as path=/function= for the step
}

// Rendered is the result of rendering a top-level path.
type Rendered struct {
	Text  string
	Steps []StepText // one per AST step; for a Rec step Names also holds ".."
}

type renderer struct {
	st Style
	sb strings.Builder
}

func (r *renderer) sp() {
	switch r.st.Pick("sp", 8) {
	case 6:
		r.sb.WriteString(" ")
	case 7:
		r.sb.WriteString("  ")
	}
}

// IsSign reports whether c is one of the ASCII symbols that must be escaped in dot notation.
func IsSign(c rune) bool {
	if c >= 0x80 {
		return false
	}
	switch {
	case c >= ' ' && c <= ',':
		return true
	case c == '.' || c == '/':
		return true
	case c >= ':' && c <= '@':
		return true
	case c >= '[' && c <= '^':
		return true
	case c == '`':
		return true
	case c >= '{' && c <= '~':
		return true
	}
	return false
}

// DotLegal reports whether key can be written in dot notation at all.
func DotLegal(key string) bool {
	if key == "" || !utf8.ValidString(key) {
		return false
	}
	for _, c := range key {
		if c < 0x20 || c == 0x7f {
			return false
		}
	}
	return true
}

// DotName renders key for dot notation (every sign backslash-escaped).
func DotName(key string) string {
	var sb strings.Builder
	for _, c := range key {
		if IsSign(c) {
			sb.WriteByte('\\')
		}
		sb.WriteRune(c)
	}
	return sb.String()
}

// QuoteName renders key as a quoted bracket name with JSON-style escaping.
// mode 0: minimal escaping; 1: \uXXXX for everything non-alphanumeric; 2: minimal plus "\/".
func QuoteName(key string, q Notation, mode int) string {
	quote := byte('\'')
	if q == NDQ {
		quote = '"'
	}
	var sb strings.Builder
	sb.WriteByte(quote)
	for _, c := range key {
		switch {
		case mode == 1 && !(c >= '0' && c <= '9' || c >= 'a' && c <= 'z' || c >= 'A' && c <= 'Z'):
			writeU(&sb, c)
		case mode == 3:
			writeU(&sb, c) // every character as \uXXXX (surrogate pairs beyond the BMP)
		case c == rune(quote):
			sb.WriteByte('\\')
			sb.WriteByte(quote)
		case c == '\\':
			sb.WriteString(`\\`)
		case c == '/' && mode == 2:
			sb.WriteString(`\/`)
		case c == '\b':
			sb.WriteString(`\b`)
		case c == '\f':
			sb.WriteString(`\f`)
		case c == '\n':
			sb.WriteString(`\n`)
		case c == '\r':
			sb.WriteString(`\r`)
		case c == '\t':
			sb.WriteString(`\t`)
		case c < 0x20 || (c == 0x7f && mode == 2):
			// U+007F is legal unescaped in a JSON string (and encoding/json prints it raw): modes 0 writes
			// it as itself, mode 2 escaped
			writeU(&sb, c)
		default:
			sb.WriteRune(c)
		}
	}
	sb.WriteByte(quote)
	return sb.String()
}

func isIntegerText(s string) bool {
	if s == "" {
		return false
	}
	i := 0
	if s[0] == '-' || s[0] == '+' {
		i = 1
	}
	if i == len(s) {
		return false
	}
	for ; i < len(s); i++ {
		if s[i] < '0' || s[i] > '9' {
			return false
		}
	}
	return true
}

func writeU(sb *strings.Builder, c rune) {
	if c >= 0x10000 {
		c -= 0x10000
		hi, lo := 0xd800+(c>>10), 0xdc00+(c&0x3ff)
		fmt.Fprintf(sb, `\u%04x\u%04X`, hi, lo)
		return
	}
	fmt.Fprintf(sb, `\u%04x`, c)
}

func (r *renderer) intText(n int) string {
	s := strconv.Itoa(n)
	switch r.st.Pick("int", 9) {
	case 8:
		if n == 0 {
			return "-0" // zero with a minus sign is zero
		}
		if n > 0 {
			return "+00" + s
		}
	case 5:
		if n >= 0 {
			return "+" + s
		}
	case 6:
		zeros := "00"
		if n%3 == 1 || n%3 == -1 {
			zeros = "0000000000000000000000" // leading zeros are leading zeros, however many
		}
		if n >= 0 {
			return zeros + s
		}
		return "-" + zeros[1:] + s[1:]
	case 7:
		if n >= 0 {
			return "+0" + s
		}
	}
	return s
}

func (r *renderer) name(key string, q Notation) string {
	if r.st.Vary() {
		if r.st.Pick("quote", 2) == 1 {
			if q == NSQ {
				q = NDQ
			} else {
				q = NSQ
			}
		}
		return QuoteName(key, q, r.st.Pick("esc", 3))
	}
	return QuoteName(key, q, 0)
}

func (r *renderer) sub(s *Sub) {
	switch s.Kind {
	case KWild:
		r.sb.WriteString("*")
	case KIndex:
		r.sb.WriteString(r.intText(s.N))
	case KSlice:
		if s.Start != nil {
			r.sb.WriteString(r.intText(*s.Start))
		}
		r.sp()
		r.sb.WriteString(":")
		r.sp()
		if s.End != nil {
			r.sb.WriteString(r.intText(*s.End))
		}
		if !(s.TwoPart && s.Step == nil) {
			r.sp()
			r.sb.WriteString(":")
			r.sp()
			if s.Step != nil {
				r.sb.WriteString(r.intText(*s.Step))
			}
		}
	}
}

// step renders one step; bare says the step is the first step of a root-omitted path
// (dot forms are then written without the dot).
func (r *renderer) step(s *Step, bare bool) StepText {
	start := r.sb.Len()
	var names []string
	if s.Rec {
		r.sb.WriteString("..")
		names = append(names, "..")
		bare = true
	}
	selStart := r.sb.Len()
	not := s.Not
	dotForm := false
	switch s.Kind {
	case KName:
		if r.st.Vary() {
			switch r.st.Pick("notation", 3) {
			case 1:
				not = NSQ
			case 2:
				not = NDot
			}
		}
		if not == NDot && !DotLegal(s.Key) {
			not = NSQ
		}
		if not == NDot {
			dotForm = true
			if !bare {
				r.sb.WriteString(".")
			}
			r.sb.WriteString(DotName(s.Key))
			if bare {
				names = append(names, s.Key)
			}
		} else {
			r.sb.WriteString("[")
			r.sp()
			r.sb.WriteString(r.name(s.Key, not))
			r.sp()
			r.sb.WriteString("]")
		}
	case KWild:
		if r.st.Vary() && r.st.Pick("wild", 2) == 1 {
			if not == NDot {
				not = NSQ
			} else {
				not = NDot
			}
		}
		if not == NDot {
			dotForm = true
			if !bare {
				r.sb.WriteString(".")
			}
			r.sb.WriteString("*")
			if bare {
				names = append(names, "*")
			}
		} else {
			r.sb.WriteString("[")
			r.sp()
			r.sb.WriteString("*")
			r.sp()
			r.sb.WriteString("]")
		}
	case KMulti:
		r.sb.WriteString("[")
		r.sp()
		for i := range s.Ent {
			if i > 0 {
				r.sp()
				r.sb.WriteString(",")
				r.sp()
			}
			if s.Ent[i].Wild {
				r.sb.WriteString("*")
				names = append(names, "*")
			} else {
				r.sb.WriteString(r.name(s.Ent[i].Key, s.Ent[i].Q))
				// (a name entry never reports by itself: the error names the whole selector; only a
				// wildcard entry may report "*")
			}
		}
		r.sp()
		r.sb.WriteString("]")
	case KIndex, KSlice, KUnion:
		r.sb.WriteString("[")
		r.sp()
		for i := range s.Sub {
			if i > 0 {
				r.sp()
				r.sb.WriteString(",")
				r.sp()
			}
			r.sub(&s.Sub[i])
		}
		r.sp()
		r.sb.WriteString("]")
	case KFilter:
		r.sb.WriteString("[")
		r.sp()
		r.sb.WriteString("?(")
		r.sp()
		r.query(s.Q)
		r.sp()
		r.sb.WriteString(")")
		r.sp()
		r.sb.WriteString("]")
	case KFunc:
		r.sb.WriteString(".")
		r.sb.WriteString(s.Fn)
		r.sb.WriteString("()")
	}
	whole := r.sb.String()
	written := whole[start:]
	if !(dotForm && bare) {
		// the node's text is the selector as written (without the ".." of a recursive step)
		names = append(names, whole[selStart:])
	}
	return StepText{Written: written, Names: names}
}

func (r *renderer) path(p *Path, top bool) []StepText {
	texts := make([]StepText, len(p.Steps))
	root := p.Root
	if top && r.st.Vary() && root == RootDollar && len(p.Steps) > 0 && omittable(&p.Steps[0]) && r.st.Pick("root", 4) == 3 {
		root = RootOmitted
	}
	switch root {
	case RootDollar:
		r.sb.WriteString("$")
	case RootAt:
		r.sb.WriteString("@")
	}
	for i := range p.Steps {
		texts[i] = r.step(&p.Steps[i], i == 0 && root == RootOmitted)
	}
	return texts
}

// omittable: "$" may be dropped before a leading dot-name, ".*" or bracket (never before ".." or a function).
func omittable(s *Step) bool {
	if s.Rec || s.Kind == KFunc {
		return false
	}
	return true
}

func (r *renderer) operandPath(p *Path) {
	r.path(p, false) // only a top-level path may omit its "$"
}

func (r *renderer) lit(o *Operand) {
	switch o.LK {
	case LNum:
		num := o.Num
		if r.st.Vary() && isIntegerText(num) {
			// an explicit "+" sign or leading zeros on an integer change nothing
			switch r.st.Pick("numspelling", 4) {
			case 1:
				if num[0] != '-' && num[0] != '+' {
					num = "+" + num
				}
			case 2:
				sign := ""
				if num[0] == '-' || num[0] == '+' {
					sign, num = num[:1], num[1:]
				}
				num = sign + "00" + num
			}
		}
		r.sb.WriteString(num)
	case LStr:
		q := byte('"')
		if o.SQ {
			q = '\''
		}
		if r.st.Vary() && r.st.Pick("quote", 2) == 1 {
			if q == '"' {
				q = '\''
			} else {
				q = '"'
			}
		}
		r.sb.WriteByte(q)
		for i := 0; i < len(o.Str); i++ {
			c := o.Str[i]
			if c == q || c == '\\' {
				r.sb.WriteByte('\\')
			}
			r.sb.WriteByte(c)
		}
		r.sb.WriteByte(q)
	case LBool:
		k := 0
		if r.st.Vary() {
			k = r.st.Pick("case", 3)
		}
		if o.Bool {
			r.sb.WriteString([]string{"true", "True", "TRUE"}[k])
		} else {
			r.sb.WriteString([]string{"false", "False", "FALSE"}[k])
		}
	case LNull:
		k := 0
		if r.st.Vary() {
			k = r.st.Pick("case", 3)
		}
		r.sb.WriteString([]string{"null", "Null", "NULL"}[k])
	}
}

func (r *renderer) operand(o *Operand) {
	if o.IsLit {
		r.lit(o)
		return
	}
	r.operandPath(o.P)
}

// RegexText escapes "/" for use between the regex slashes.
func RegexText(re string) string {
	return strings.ReplaceAll(re, "/", `\/`)
}

func (r *renderer) query(q *Query) {
	switch q.Kind {
	case QOr:
		r.query(q.L)
		r.sp()
		r.sb.WriteString("||")
		r.sp()
		r.query(q.R)
	case QAnd:
		r.query(q.L)
		r.sp()
		r.sb.WriteString("&&")
		r.sp()
		r.query(q.R)
	case QParen:
		r.sb.WriteString("(")
		r.sp()
		r.query(q.L)
		r.sp()
		r.sb.WriteString(")")
	case QExists:
		if q.Not {
			r.sb.WriteString("!")
			r.sp()
		}
		r.operandPath(q.P)
	case QCmp:
		r.operand(q.A)
		r.sp()
		if !r.st.Vary() {
			r.sb.WriteString(" ")
		}
		r.sb.WriteString(q.Op)
		r.sp()
		if !r.st.Vary() {
			r.sb.WriteString(" ")
		}
		r.operand(q.B)
	case QRegex:
		r.operandPath(q.P)
		r.sp()
		r.sb.WriteString("=~")
		r.sp()
		r.sb.WriteString("/")
		r.sb.WriteString(RegexText(q.Re))
		r.sb.WriteString("/")
	}
}

// Render renders a top-level path with the given style.
func Render(p *Path, st Style) Rendered {
	r := &renderer{st: st}
	r.sp()
	texts := r.path(p, true)
	r.sp()
	return Rendered{Text: r.sb.String(), Steps: texts}
}

// RenderQuery renders a filter query alone (used by C09/C10 to assemble "$[?(...)]").
func RenderQuery(q *Query, st Style) string {
	r := &renderer{st: st}
	r.query(q)
	return r.sb.String()
}

// RenderSteps renders "$" followed by the given steps, canonical style.
func RenderSteps(steps []Step) Rendered {
	return Render(&Path{Root: RootDollar, Steps: steps}, Canon)
}

// RenderStepsRootless writes the steps without the leading "$" where the grammar allows it
// (the first step is a name, a bracket or a filter, not a recursive descent or a function).
func RenderStepsRootless(steps []Step) Rendered {
	if len(steps) == 0 || !omittable(&steps[0]) {
		return RenderSteps(steps)
	}
	return Render(&Path{Root: RootOmitted, Steps: steps}, Canon)
}
