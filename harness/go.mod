module verif/harness

go 1.23

require (
	github.com/AsaiYusuke/jsonpath v0.0.0
	pgregory.net/rapid v1.3.0
)

replace github.com/AsaiYusuke/jsonpath => /repo
