package pegi

import "strings"

// Generate derives a random sentence from the named rule by expanding the grammar top-down:
// ordered choice picks any alternative, repetitions are short, predicates are ignored (so the
// result is *usually*, not always, matched by the PEG). pick(n) must return a number in [0,n).
// When the depth budget is used up the derivation takes the shallowest way out.
func (g *Grammar) Generate(ruleName string, pick func(n int) int, maxDepth int) string {
	r, ok := g.rules[ruleName]
	if !ok {
		return ""
	}
	g.ensureDepths()
	var sb strings.Builder
	gen := &sentenceGen{g: g, pick: pick, sb: &sb, maxDepth: maxDepth}
	gen.expand(r.body, 0)
	return sb.String()
}

type sentenceGen struct {
	g        *Grammar
	pick     func(n int) int
	sb       *strings.Builder
	maxDepth int
	emitted  int
}

var classPool = []rune{'a', 'b', 'Z', '0', '7', '_', '-', ' ', '.', '*', '\'', '"', '\\', '/', '$', '@', '(', ')', '[', ']', '?', '!', '=', '<', '>', '&', '|', ',', ':', '+', 'e', 'E', 'u', 'n', 'é', '😀', '\t', '\n', 0x7f, 0x00, '~', '{', '`', '^'}

func (e *expr) minDepth(g *Grammar) int { return g.depths[e] }

func (g *Grammar) ensureDepths() {
	if g.depths != nil {
		return
	}
	g.depths = map[*expr]int{}
	ruleDepth := map[*rule]int{}
	const inf = 1 << 20
	for _, r := range g.order {
		ruleDepth[r] = inf
	}
	var depth func(e *expr) int
	depth = func(e *expr) int {
		switch e.kind {
		case eSeq:
			d := 0
			for _, k := range e.kids {
				if x := depth(k); x > d {
					d = x
				}
			}
			return d
		case eChoice:
			d := inf
			for _, k := range e.kids {
				if x := depth(k); x < d {
					d = x
				}
			}
			return d
		case eStar, eOpt, eNot, eAnd, eAction, eLit, eClass, eAny:
			return 0
		case ePlus, eCapture:
			return depth(e.kids[0])
		case eRef:
			d := ruleDepth[e.rule]
			if d >= inf {
				return inf
			}
			return d + 1
		}
		return 0
	}
	for changed := true; changed; {
		changed = false
		for _, r := range g.order {
			if d := depth(r.body); d < ruleDepth[r] {
				ruleDepth[r] = d
				changed = true
			}
		}
	}
	var fill func(e *expr)
	fill = func(e *expr) {
		g.depths[e] = depth(e)
		for _, k := range e.kids {
			fill(k)
		}
	}
	for _, r := range g.order {
		fill(r.body)
	}
}

func (s *sentenceGen) expand(e *expr, depth int) {
	if s.emitted > 400 {
		return
	}
	tight := depth >= s.maxDepth
	switch e.kind {
	case eSeq:
		for _, k := range e.kids {
			s.expand(k, depth)
		}
	case eChoice:
		if tight {
			best := e.kids[0]
			for _, k := range e.kids {
				if k.minDepth(s.g) < best.minDepth(s.g) {
					best = k
				}
			}
			s.expand(best, depth)
			return
		}
		s.expand(e.kids[s.pick(len(e.kids))], depth)
	case eStar:
		n := 0
		if !tight {
			n = s.pick(3)
		}
		for i := 0; i < n; i++ {
			s.expand(e.kids[0], depth)
		}
	case ePlus:
		n := 1
		if !tight {
			n += s.pick(2)
		}
		for i := 0; i < n; i++ {
			s.expand(e.kids[0], depth)
		}
	case eOpt:
		if !tight && s.pick(2) == 0 {
			s.expand(e.kids[0], depth)
		}
	case eCapture:
		s.expand(e.kids[0], depth)
	case eLit:
		s.sb.WriteString(string(e.lit))
		s.emitted += len(e.lit)
	case eClass:
		if !e.negate && len(e.ranges) > 0 {
			r := e.ranges[s.pick(len(e.ranges))]
			span := int(r.hi-r.lo) + 1
			if span > 64 {
				span = 64
			}
			s.sb.WriteRune(r.lo + rune(s.pick(span)))
		} else {
			for try := 0; try < 8; try++ {
				c := classPool[s.pick(len(classPool))]
				in := false
				for _, r := range e.ranges {
					if c >= r.lo && c <= r.hi {
						in = true
					}
				}
				if !in {
					s.sb.WriteRune(c)
					break
				}
			}
		}
		s.emitted++
	case eAny:
		s.sb.WriteRune(classPool[s.pick(len(classPool))])
		s.emitted++
	case eRef:
		s.expand(e.rule.body, depth+1)
	}
}
