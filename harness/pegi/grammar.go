// Package pegi is an interpreter for jsonpath.peg itself (DESIGN.md §3.4): it reads the PEG
// meta-syntax used by that file and recognises inputs with textbook PEG semantics. It shares
// nothing with the generated parser jsonpath.peg.go.
package pegi

import (
	"fmt"
	"os"
	"strconv"
	"strings"
)

type exprKind int

const (
	eSeq exprKind = iota
	eChoice
	eStar
	ePlus
	eOpt
	eNot
	eAnd
	eLit
	eClass
	eAny
	eRef
	eCapture
	eAction
)

type crange struct{ lo, hi rune }

type expr struct {
	kind   exprKind
	kids   []*expr
	lit    []rune
	ranges []crange
	negate bool
	name   string
	rule   *rule
}

type rule struct {
	name  string
	index int
	body  *expr
}

// Grammar is a parsed PEG file.
type Grammar struct {
	rules  map[string]*rule
	order  []*rule
	Source string
	depths map[*expr]int // minimal derivation depth per expression (sentence generation)
}

type metaParser struct {
	src []rune
	pos int
}

func (m *metaParser) errf(format string, args ...any) error {
	line := 1 + strings.Count(string(m.src[:m.pos]), "\n")
	return fmt.Errorf("pegi: grammar line %d: %s", line, fmt.Sprintf(format, args...))
}

func (m *metaParser) eof() bool { return m.pos >= len(m.src) }

func (m *metaParser) skipSpace() {
	for !m.eof() {
		c := m.src[m.pos]
		if c == ' ' || c == '\t' || c == '\n' || c == '\r' {
			m.pos++
			continue
		}
		if c == '#' {
			for !m.eof() && m.src[m.pos] != '\n' {
				m.pos++
			}
			continue
		}
		break
	}
}

func isIdentStart(c rune) bool {
	return c == '_' || c >= 'a' && c <= 'z' || c >= 'A' && c <= 'Z'
}
func isIdentChar(c rune) bool { return isIdentStart(c) || c >= '0' && c <= '9' }

func (m *metaParser) ident() string {
	start := m.pos
	for !m.eof() && isIdentChar(m.src[m.pos]) {
		m.pos++
	}
	return string(m.src[start:m.pos])
}

// peekRuleStart reports whether an identifier followed by "<-" starts here.
func (m *metaParser) peekRuleStart() bool {
	save := m.pos
	defer func() { m.pos = save }()
	if m.eof() || !isIdentStart(m.src[m.pos]) {
		return false
	}
	m.ident()
	m.skipSpace()
	return m.pos+1 < len(m.src) && m.src[m.pos] == '<' && m.src[m.pos+1] == '-'
}

// LoadGrammar reads and parses a .peg file.
func LoadGrammar(path string) (*Grammar, error) {
	b, err := os.ReadFile(path)
	if err != nil {
		return nil, err
	}
	return ParseGrammar(string(b))
}

// ParseGrammar parses PEG source text.
func ParseGrammar(src string) (*Grammar, error) {
	m := &metaParser{src: []rune(src)}
	g := &Grammar{rules: map[string]*rule{}, Source: src}
	m.skipSpace()
	// header: package X ; type Name Peg { ... }
	if strings.HasPrefix(string(m.src[m.pos:]), "package") {
		m.pos += len("package")
		m.skipSpace()
		m.ident()
		m.skipSpace()
	}
	if strings.HasPrefix(string(m.src[m.pos:]), "type") {
		m.pos += len("type")
		m.skipSpace()
		m.ident()
		m.skipSpace()
		if m.ident() != "Peg" {
			return nil, m.errf("expected 'Peg' in type declaration")
		}
		m.skipSpace()
		if m.eof() || m.src[m.pos] != '{' {
			return nil, m.errf("expected '{' after Peg")
		}
		if err := m.skipBraces(); err != nil {
			return nil, err
		}
	}
	for {
		m.skipSpace()
		if m.eof() {
			break
		}
		if !m.peekRuleStart() {
			return nil, m.errf("expected a rule definition near %q", string(m.src[m.pos:min(m.pos+20, len(m.src))]))
		}
		name := m.ident()
		m.skipSpace()
		m.pos += 2 // "<-"
		body, err := m.expression()
		if err != nil {
			return nil, err
		}
		if _, dup := g.rules[name]; dup {
			return nil, m.errf("duplicate rule %s", name)
		}
		r := &rule{name: name, index: len(g.order), body: body}
		g.rules[name] = r
		g.order = append(g.order, r)
	}
	// resolve references
	var resolve func(e *expr) error
	resolve = func(e *expr) error {
		if e.kind == eRef {
			r, ok := g.rules[e.name]
			if !ok {
				return fmt.Errorf("pegi: undefined rule %s", e.name)
			}
			e.rule = r
		}
		for _, k := range e.kids {
			if err := resolve(k); err != nil {
				return err
			}
		}
		return nil
	}
	for _, r := range g.order {
		if err := resolve(r.body); err != nil {
			return nil, err
		}
	}
	if len(g.order) == 0 {
		return nil, fmt.Errorf("pegi: no rules")
	}
	return g, nil
}

// skipBraces skips a Go code block starting at '{', aware of Go strings, runes and comments.
func (m *metaParser) skipBraces() error {
	depth := 0
	for !m.eof() {
		c := m.src[m.pos]
		switch c {
		case '{':
			depth++
			m.pos++
		case '}':
			depth--
			m.pos++
			if depth == 0 {
				return nil
			}
		case '"':
			m.pos++
			for !m.eof() && m.src[m.pos] != '"' {
				if m.src[m.pos] == '\\' {
					m.pos++
				}
				m.pos++
			}
			m.pos++
		case '`':
			m.pos++
			for !m.eof() && m.src[m.pos] != '`' {
				m.pos++
			}
			m.pos++
		case '\'':
			m.pos++
			for !m.eof() && m.src[m.pos] != '\'' {
				if m.src[m.pos] == '\\' {
					m.pos++
				}
				m.pos++
			}
			m.pos++
		case '/':
			if m.pos+1 < len(m.src) && m.src[m.pos+1] == '/' {
				for !m.eof() && m.src[m.pos] != '\n' {
					m.pos++
				}
			} else if m.pos+1 < len(m.src) && m.src[m.pos+1] == '*' {
				m.pos += 2
				for m.pos+1 < len(m.src) && !(m.src[m.pos] == '*' && m.src[m.pos+1] == '/') {
					m.pos++
				}
				m.pos += 2
			} else {
				m.pos++
			}
		default:
			m.pos++
		}
	}
	return m.errf("unterminated action")
}

func (m *metaParser) expression() (*expr, error) {
	first, err := m.sequence()
	if err != nil {
		return nil, err
	}
	alts := []*expr{first}
	for {
		m.skipSpace()
		if m.eof() || m.src[m.pos] != '/' {
			break
		}
		m.pos++
		s, err := m.sequence()
		if err != nil {
			return nil, err
		}
		alts = append(alts, s)
	}
	if len(alts) == 1 {
		return first, nil
	}
	return &expr{kind: eChoice, kids: alts}, nil
}

func (m *metaParser) sequence() (*expr, error) {
	seq := &expr{kind: eSeq}
	for {
		m.skipSpace()
		if m.eof() {
			break
		}
		c := m.src[m.pos]
		if c == '/' || c == ')' || c == '>' {
			break
		}
		if m.peekRuleStart() {
			break
		}
		p, err := m.prefix()
		if err != nil {
			return nil, err
		}
		seq.kids = append(seq.kids, p)
	}
	return seq, nil
}

func (m *metaParser) prefix() (*expr, error) {
	c := m.src[m.pos]
	if c == '!' || c == '&' {
		m.pos++
		m.skipSpace()
		s, err := m.suffix()
		if err != nil {
			return nil, err
		}
		k := eNot
		if c == '&' {
			k = eAnd
		}
		return &expr{kind: k, kids: []*expr{s}}, nil
	}
	return m.suffix()
}

func (m *metaParser) suffix() (*expr, error) {
	p, err := m.primary()
	if err != nil {
		return nil, err
	}
	m.skipSpace()
	if !m.eof() {
		switch m.src[m.pos] {
		case '?':
			m.pos++
			return &expr{kind: eOpt, kids: []*expr{p}}, nil
		case '*':
			m.pos++
			return &expr{kind: eStar, kids: []*expr{p}}, nil
		case '+':
			m.pos++
			return &expr{kind: ePlus, kids: []*expr{p}}, nil
		}
	}
	return p, nil
}

func (m *metaParser) primary() (*expr, error) {
	c := m.src[m.pos]
	switch {
	case isIdentStart(c):
		return &expr{kind: eRef, name: m.ident()}, nil
	case c == '(':
		m.pos++
		e, err := m.expression()
		if err != nil {
			return nil, err
		}
		m.skipSpace()
		if m.eof() || m.src[m.pos] != ')' {
			return nil, m.errf("expected ')'")
		}
		m.pos++
		return e, nil
	case c == '<':
		m.pos++
		e, err := m.expression()
		if err != nil {
			return nil, err
		}
		m.skipSpace()
		if m.eof() || m.src[m.pos] != '>' {
			return nil, m.errf("expected '>'")
		}
		m.pos++
		return &expr{kind: eCapture, kids: []*expr{e}}, nil
	case c == '{':
		if err := m.skipBraces(); err != nil {
			return nil, err
		}
		return &expr{kind: eAction}, nil
	case c == '.':
		m.pos++
		return &expr{kind: eAny}, nil
	case c == '\'' || c == '"':
		return m.literal(c)
	case c == '[':
		return m.class()
	}
	return nil, m.errf("unexpected character %q", c)
}

// char reads one (possibly escaped) character of a literal or class.
func (m *metaParser) char() (rune, error) {
	if m.eof() {
		return 0, m.errf("unexpected end of grammar")
	}
	c := m.src[m.pos]
	if c != '\\' {
		m.pos++
		return c, nil
	}
	m.pos++
	if m.eof() {
		return 0, m.errf("dangling backslash")
	}
	e := m.src[m.pos]
	switch e {
	case 'a':
		m.pos++
		return '\a', nil
	case 'b':
		m.pos++
		return '\b', nil
	case 'f':
		m.pos++
		return '\f', nil
	case 'n':
		m.pos++
		return '\n', nil
	case 'r':
		m.pos++
		return '\r', nil
	case 't':
		m.pos++
		return '\t', nil
	case 'v':
		m.pos++
		return '\v', nil
	case '\'', '"', '[', ']', '-', '\\':
		m.pos++
		return e, nil
	case '0':
		if m.pos+1 < len(m.src) && (m.src[m.pos+1] == 'x' || m.src[m.pos+1] == 'X') {
			m.pos += 2
			start := m.pos
			for !m.eof() && strings.ContainsRune("0123456789abcdefABCDEF", m.src[m.pos]) {
				m.pos++
			}
			v, err := strconv.ParseUint(string(m.src[start:m.pos]), 16, 32)
			if err != nil {
				return 0, m.errf("bad hex escape")
			}
			return rune(v), nil
		}
	}
	if e >= '0' && e <= '7' {
		start := m.pos
		for !m.eof() && m.pos-start < 3 && m.src[m.pos] >= '0' && m.src[m.pos] <= '7' {
			m.pos++
		}
		v, _ := strconv.ParseUint(string(m.src[start:m.pos]), 8, 32)
		return rune(v), nil
	}
	return 0, m.errf("unsupported escape \\%c", e)
}

func (m *metaParser) literal(quote rune) (*expr, error) {
	m.pos++
	e := &expr{kind: eLit}
	for {
		if m.eof() {
			return nil, m.errf("unterminated literal")
		}
		if m.src[m.pos] == quote {
			m.pos++
			return e, nil
		}
		c, err := m.char()
		if err != nil {
			return nil, err
		}
		e.lit = append(e.lit, c)
	}
}

func (m *metaParser) class() (*expr, error) {
	m.pos++ // '['
	e := &expr{kind: eClass}
	if !m.eof() && m.src[m.pos] == '^' {
		e.negate = true
		m.pos++
	}
	for {
		if m.eof() {
			return nil, m.errf("unterminated class")
		}
		if m.src[m.pos] == ']' {
			m.pos++
			return e, nil
		}
		lo, err := m.char()
		if err != nil {
			return nil, err
		}
		hi := lo
		if m.pos+1 < len(m.src) && m.src[m.pos] == '-' && m.src[m.pos+1] != ']' {
			m.pos++
			hi, err = m.char()
			if err != nil {
				return nil, err
			}
		}
		e.ranges = append(e.ranges, crange{lo, hi})
	}
}
