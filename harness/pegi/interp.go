package pegi

// Node is a node of the derivation tree: one per named-rule application, plus one per
// capture "< ... >" (Rule == "<>").
type Node struct {
	Rule  string
	Begin int // rune offsets
	End   int
	Alt   int // index of the alternative taken when the rule body is an ordered choice
	Kids  []*Node
}

// Text returns the matched runes.
func (n *Node) Text(in []rune) string { return string(in[n.Begin:n.End]) }

// Kid returns the first child with the given rule name.
func (n *Node) Kid(rule string) *Node {
	for _, k := range n.Kids {
		if k.Rule == rule {
			return k
		}
	}
	return nil
}

// KidsOf returns all direct children with the given rule name.
func (n *Node) KidsOf(rule string) []*Node {
	var out []*Node
	for _, k := range n.Kids {
		if k.Rule == rule {
			out = append(out, k)
		}
	}
	return out
}

// Find returns the first descendant (pre-order, including n) with the rule name.
func (n *Node) Find(rule string) *Node {
	if n.Rule == rule {
		return n
	}
	for _, k := range n.Kids {
		if f := k.Find(rule); f != nil {
			return f
		}
	}
	return nil
}

type memoKey struct {
	rule int
	pos  int
}

type memoVal struct {
	end  int
	node *Node
}

type matcher struct {
	in   []rune
	memo map[memoKey]memoVal
}

// Match applies the named rule at offset 0 and returns its derivation (nil if it fails).
func (g *Grammar) Match(ruleName string, in []rune) *Node {
	r, ok := g.rules[ruleName]
	if !ok {
		return nil
	}
	m := &matcher{in: in, memo: map[memoKey]memoVal{}}
	_, n := m.applyRule(r, 0)
	return n
}

func (m *matcher) applyRule(r *rule, pos int) (int, *Node) {
	key := memoKey{r.index, pos}
	if v, ok := m.memo[key]; ok {
		return v.end, v.node
	}
	var kids []*Node
	alt := 0
	end := -1
	if r.body.kind == eChoice {
		for i, a := range r.body.kids {
			var ks []*Node
			if e := m.match(a, pos, &ks); e >= 0 {
				end, kids, alt = e, ks, i
				break
			}
		}
	} else {
		end = m.match(r.body, pos, &kids)
	}
	var node *Node
	if end >= 0 {
		node = &Node{Rule: r.name, Begin: pos, End: end, Alt: alt, Kids: kids}
	}
	m.memo[key] = memoVal{end, node}
	return end, node
}

// match returns the end offset or -1; derivation nodes are appended to *out on success only.
func (m *matcher) match(e *expr, pos int, out *[]*Node) int {
	switch e.kind {
	case eSeq:
		mark := len(*out)
		p := pos
		for _, k := range e.kids {
			p = m.match(k, p, out)
			if p < 0 {
				*out = (*out)[:mark]
				return -1
			}
		}
		return p
	case eChoice:
		for _, k := range e.kids {
			mark := len(*out)
			if p := m.match(k, pos, out); p >= 0 {
				return p
			}
			*out = (*out)[:mark]
		}
		return -1
	case eStar, ePlus:
		p := pos
		count := 0
		for {
			mark := len(*out)
			q := m.match(e.kids[0], p, out)
			if q < 0 {
				*out = (*out)[:mark]
				break
			}
			count++
			if q == p { // no progress: stop (would loop forever)
				break
			}
			p = q
		}
		if e.kind == ePlus && count == 0 {
			return -1
		}
		return p
	case eOpt:
		mark := len(*out)
		if q := m.match(e.kids[0], pos, out); q >= 0 {
			return q
		}
		*out = (*out)[:mark]
		return pos
	case eNot:
		var scratch []*Node
		if m.match(e.kids[0], pos, &scratch) >= 0 {
			return -1
		}
		return pos
	case eAnd:
		var scratch []*Node
		if m.match(e.kids[0], pos, &scratch) < 0 {
			return -1
		}
		return pos
	case eLit:
		if pos+len(e.lit) > len(m.in) {
			return -1
		}
		for i, c := range e.lit {
			if m.in[pos+i] != c {
				return -1
			}
		}
		return pos + len(e.lit)
	case eClass:
		if pos >= len(m.in) {
			return -1
		}
		c := m.in[pos]
		in := false
		for _, r := range e.ranges {
			if c >= r.lo && c <= r.hi {
				in = true
				break
			}
		}
		if in == e.negate {
			return -1
		}
		return pos + 1
	case eAny:
		if pos >= len(m.in) {
			return -1
		}
		return pos + 1
	case eRef:
		end, node := m.applyRule(e.rule, pos)
		if end < 0 {
			return -1
		}
		*out = append(*out, node)
		return end
	case eCapture:
		var kids []*Node
		end := m.match(e.kids[0], pos, &kids)
		if end < 0 {
			return -1
		}
		*out = append(*out, &Node{Rule: "<>", Begin: pos, End: end, Kids: kids})
		return end
	case eAction:
		return pos
	}
	return -1
}

// Verdict is PEGI's reading of one input.
type Verdict struct {
	Accepted  bool  // the whole input derives from expression's first alternative
	Tree      *Node // derivation of "jsonpath" (whole input if Accepted, else the longest-prefix match; may be nil)
	PrefixEnd int   // rune offset where "< .* >" of the catch-all alternative begins
	Runes     []rune
}

// Parse recognises the input against the grammar's "expression" rule: first alternative =
// accepted; catch-all alternative = rejected, with the offset of its "< .* >" capture.
func (g *Grammar) Parse(input string) Verdict {
	in := []rune(input)
	v := Verdict{Runes: in}
	top := g.Match("expression", in)
	if top == nil {
		// cannot happen with the published grammar (the catch-all matches anything)
		return v
	}
	v.Tree = top.Kid("jsonpath")
	if top.Alt == 0 {
		v.Accepted = true
		v.PrefixEnd = len(in)
		return v
	}
	if c := top.Kid("<>"); c != nil {
		v.PrefixEnd = c.Begin
	}
	return v
}
