package pegi

import (
	"regexp"
	"strconv"
)

// Restriction is a violated documented semantic restriction (DESIGN.md §3.4).
type Restriction struct {
	Type     string // ErrorInvalidArgument | ErrorFunctionNotFound | ErrorNotSupported | ErrorInvalidSyntax
	Position int    // ErrorInvalidSyntax: rune offset of the offending operand / comparison
	Reason   string // ErrorInvalidSyntax: "value group" | "two current"
	Arg      string // argument / function / script text
	At       int    // rune offset at which the grammar action that raises it runs (end of the construct)
}

// Restrictions evaluates the documented restrictions on a derivation tree, independently of
// the library's action code, and returns every violation in the order the grammar's actions
// would meet them (actions sit at the end of their constructs, so: post-order).
func Restrictions(tree *Node, in []rune, funcs Funcs) []Restriction {
	var out []Restriction
	if tree == nil {
		return nil
	}
	c := &converter{in: in, funcs: funcs}
	var walk func(n *Node)
	walk = func(n *Node) {
		for _, k := range n.Kids {
			walk(k)
		}
		switch n.Rule {
		case "indexNumber":
			if _, err := strconv.Atoi(c.text(n)); err != nil {
				out = append(out, Restriction{Type: "ErrorInvalidArgument", Arg: c.text(n), At: n.End})
			}
		case "lNumber":
			if _, err := strconv.ParseFloat(c.text(n), 64); err != nil {
				out = append(out, Restriction{Type: "ErrorInvalidArgument", Arg: c.text(n), At: n.End})
			}
		case "singleQuotedNodeIdentifier":
			inner := c.text(n.Kid("<>"))
			if _, err := UnquoteName(inner, true); err != nil {
				out = append(out, Restriction{Type: "ErrorInvalidArgument", Arg: inner, At: n.End})
			}
		case "doubleQuotedNodeIdentifier":
			inner := c.text(n.Kid("<>"))
			if _, err := UnquoteName(inner, false); err != nil {
				out = append(out, Restriction{Type: "ErrorInvalidArgument", Arg: inner, At: n.End})
			}
		case "regex":
			if _, err := regexp.Compile(c.text(n)); err != nil {
				out = append(out, Restriction{Type: "ErrorInvalidArgument", Arg: c.text(n), At: n.End})
			}
		case "function":
			name := c.text(n.Find("functionName"))
			if !funcs.Filter(name) && !funcs.Aggregate(name) {
				out = append(out, Restriction{Type: "ErrorFunctionNotFound", Arg: c.text(n), At: n.End})
			}
		case "script":
			out = append(out, Restriction{Type: "ErrorNotSupported", Arg: c.text(n.Kid("<>")), At: n.End})
		case "singleJsonpathFilter":
			if len(out) > 0 {
				return // the operand cannot be converted reliably once something inside it is invalid
			}
			p, err := ToAST(n.Find("jsonpathParameter"), in, funcs)
			if err == nil && p.IsGroupPath() {
				out = append(out, Restriction{Type: "ErrorInvalidSyntax", Reason: "value group", Position: n.Begin, At: n.End})
			}
		case "basicQuery":
			cap := n.Kid("<>")
			if cap == nil {
				return
			}
			cmp := cap.Kid("comparator")
			if cmp == nil {
				return
			}
			at := 0
			for _, k := range cmp.Kids {
				if k.Rule == "qParam" || k.Rule == "qNumericParam" {
					if s := k.Kid("singleJsonpathFilter"); s != nil {
						if root := s.Find("parameterRootNode"); root != nil && root.Kid("currentRootIdentifier") != nil {
							at++
						}
					}
				}
			}
			if at >= 2 {
				out = append(out, Restriction{Type: "ErrorInvalidSyntax", Reason: "two current", Position: cap.Begin, At: n.End})
			}
		}
	}
	walk(tree)
	return out
}
