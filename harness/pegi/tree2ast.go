package pegi

import (
	"encoding/json"
	"fmt"
	"strconv"
	"strings"

	"verif/harness/gen"
)

// Funcs tells the converter which function names are registered, and as what.
type Funcs struct {
	Filter    func(name string) bool
	Aggregate func(name string) bool
}

// CatalogueFuncs is the harness function catalogue (f1..f6, g1..g6).
var CatalogueFuncs = Funcs{Filter: gen.IsFilterName, Aggregate: gen.IsAggName}

// NoFuncs registers nothing.
var NoFuncs = Funcs{Filter: func(string) bool { return false }, Aggregate: func(string) bool { return false }}

type converter struct {
	in    []rune
	funcs Funcs
	texts []gen.StepText // step texts of the top-level path (filled when wantTexts)
	depth int
}

// ToASTWithTexts is ToAST plus, for every step of the top-level path, the text it was
// written with and the texts the library may name it by in a runtime error.
func ToASTWithTexts(tree *Node, in []rune, funcs Funcs) (p *gen.Path, texts []gen.StepText, err error) {
	defer func() {
		if r := recover(); r != nil {
			p, texts, err = nil, nil, fmt.Errorf("pegi: cannot convert derivation: %v", r)
		}
	}()
	c := &converter{in: in, funcs: funcs}
	p = c.path(tree)
	return p, c.texts, nil
}

// ToAST converts the derivation of "jsonpath" (or "jsonpathParameter") into a path AST.
// It assumes the tree violates no semantic restriction (see Restrictions).
func ToAST(tree *Node, in []rune, funcs Funcs) (p *gen.Path, err error) {
	defer func() {
		if r := recover(); r != nil {
			p, err = nil, fmt.Errorf("pegi: cannot convert derivation: %v", r)
		}
	}()
	c := &converter{in: in, funcs: funcs}
	return c.path(tree), nil
}

func (c *converter) text(n *Node) string { return string(c.in[n.Begin:n.End]) }

func (c *converter) stepText(s *gen.Step, written string, bare bool) {
	if c.depth != 1 {
		return
	}
	st := gen.StepText{Written: written}
	sel := written
	if s.Rec {
		st.Names = append(st.Names, "..")
		sel = written[2:]
		bare = true
	}
	switch s.Kind {
	case gen.KName:
		if s.Not == gen.NDot && bare {
			st.Names = append(st.Names, s.Key)
		} else {
			st.Names = append(st.Names, sel)
		}
	case gen.KWild:
		if s.Not == gen.NDot && bare {
			st.Names = append(st.Names, "*")
		} else {
			st.Names = append(st.Names, sel)
		}
	case gen.KMulti:
		for _, e := range s.Ent {
			if e.Wild {
				st.Names = append(st.Names, "*")
			} else {
				st.Names = append(st.Names, e.Key)
			}
		}
		st.Names = append(st.Names, sel)
	default:
		st.Names = append(st.Names, sel)
	}
	c.texts = append(c.texts, st)
}

func (c *converter) path(n *Node) *gen.Path {
	c.depth++
	defer func() { c.depth-- }()
	p := &gen.Path{}
	rootNode := n.Kid("rootNode")
	if rootNode == nil {
		rootNode = n.Kid("parameterRootNode")
	}
	if rootNode == nil {
		panic("no root node")
	}
	switch {
	case rootNode.Kid("rootIdentifier") != nil:
		p.Root = gen.RootDollar
	case rootNode.Kid("currentRootIdentifier") != nil:
		p.Root = gen.RootAt
	case rootNode.Kid("bracketNode") != nil:
		p.Root = gen.RootOmitted
		st := c.bracket(rootNode.Kid("bracketNode"))
		c.stepText(&st, c.text(rootNode.Kid("bracketNode")), true)
		p.Steps = append(p.Steps, st)
	case rootNode.Kid("dotChildIdentifier") != nil:
		p.Root = gen.RootOmitted
		st := c.dotChild(rootNode.Kid("dotChildIdentifier"))
		c.stepText(&st, c.text(rootNode.Kid("dotChildIdentifier")), true)
		p.Steps = append(p.Steps, st)
	default:
		panic("unknown root node")
	}
	cont := n.Kid("continuedJsonpath")
	for _, k := range cont.Kids {
		switch k.Rule {
		case "childNode":
			st := c.childNode(k)
			c.stepText(&st, c.text(k), false)
			p.Steps = append(p.Steps, st)
		case "function":
			name := c.text(k.Find("functionName"))
			st := gen.Step{Kind: gen.KFunc, Fn: name}
			// the library looks a name up among the filter functions first
			if !c.funcs.Filter(name) && c.funcs.Aggregate(name) {
				st.Agg = true
			}
			c.stepText(&st, c.text(k), false)
			p.Steps = append(p.Steps, st)
		}
	}
	return p
}

func (c *converter) childNode(n *Node) gen.Step {
	txt := c.text(n)
	if strings.HasPrefix(txt, "..") {
		var s gen.Step
		if b := n.Kid("bracketNode"); b != nil {
			s = c.bracket(b)
		} else {
			s = c.dotChild(n.Kid("dotChildIdentifier"))
		}
		s.Rec = true
		return s
	}
	if cap := n.Kid("<>"); cap != nil {
		if d := cap.Kid("dotChildIdentifier"); d != nil {
			return c.dotChild(d)
		}
	}
	if b := n.Kid("bracketNode"); b != nil {
		return c.bracket(b)
	}
	panic("unknown child node")
}

func (c *converter) dotChild(n *Node) gen.Step {
	if n.Kid("wildcardIdentifier") != nil {
		return gen.Step{Kind: gen.KWild, Not: gen.NDot}
	}
	cap := n.Kid("<>")
	return gen.Step{Kind: gen.KName, Not: gen.NDot, Key: UnescapeBackslash(c.text(cap))}
}

// UnescapeBackslash removes the backslash of every backslash-escaped character, left to
// right (a backslash before a line feed or at the end is kept, as the documented regular
// expression `\\(.)` does not match there).
func UnescapeBackslash(s string) string {
	r := []rune(s)
	var sb strings.Builder
	for i := 0; i < len(r); i++ {
		if r[i] == '\\' && i+1 < len(r) && r[i+1] != '\n' {
			sb.WriteRune(r[i+1])
			i++
			continue
		}
		sb.WriteRune(r[i])
	}
	return sb.String()
}

// UnquoteName decodes the inside of a quoted bracket name with JSON string rules
// (single-quoted: \' is the quote, a bare " is an ordinary character).
func UnquoteName(inner string, single bool) (string, error) {
	var sb strings.Builder
	sb.WriteByte('"')
	r := []rune(inner)
	for i := 0; i < len(r); i++ {
		switch {
		case r[i] == '\\' && i+1 < len(r):
			if single && r[i+1] == '\'' {
				sb.WriteRune('\'')
			} else {
				sb.WriteRune('\\')
				sb.WriteRune(r[i+1])
			}
			i++
		case single && r[i] == '"':
			sb.WriteString(`\"`)
		default:
			sb.WriteRune(r[i])
		}
	}
	sb.WriteByte('"')
	var out string
	if err := json.Unmarshal([]byte(sb.String()), &out); err != nil {
		return "", err
	}
	return out, nil
}

func (c *converter) bracket(n *Node) gen.Step {
	cap := n.Kid("<>")
	if bc := cap.Kid("bracketChildIdentifier"); bc != nil {
		ids := bc.KidsOf("bracketNodeIdentifier")
		var ents []gen.MultiEntry
		for _, id := range ids {
			switch {
			case id.Kid("wildcardIdentifier") != nil:
				ents = append(ents, gen.MultiEntry{Wild: true})
			case id.Kid("singleQuotedNodeIdentifier") != nil:
				key, err := UnquoteName(c.text(id.Kid("singleQuotedNodeIdentifier").Kid("<>")), true)
				if err != nil {
					panic(err)
				}
				ents = append(ents, gen.MultiEntry{Key: key, Q: gen.NSQ})
			case id.Kid("doubleQuotedNodeIdentifier") != nil:
				key, err := UnquoteName(c.text(id.Kid("doubleQuotedNodeIdentifier").Kid("<>")), false)
				if err != nil {
					panic(err)
				}
				ents = append(ents, gen.MultiEntry{Key: key, Q: gen.NDQ})
			}
		}
		if len(ents) == 1 {
			if ents[0].Wild {
				return gen.Step{Kind: gen.KWild, Not: gen.NSQ}
			}
			return gen.Step{Kind: gen.KName, Key: ents[0].Key, Not: ents[0].Q}
		}
		return gen.Step{Kind: gen.KMulti, Ent: ents}
	}
	q := cap.Kid("qualifier")
	if u := q.Kid("union"); u != nil {
		var subs []gen.Sub
		for _, ix := range u.KidsOf("index") {
			subs = append(subs, c.index(ix))
		}
		kind := gen.KUnion
		if len(subs) == 1 {
			kind = subs[0].Kind
			if kind == gen.KWild {
				kind = gen.KUnion
			}
		}
		return gen.Step{Kind: kind, Sub: subs}
	}
	if f := q.Kid("filter"); f != nil {
		return gen.Step{Kind: gen.KFilter, Q: c.query(f.Kid("query"))}
	}
	panic("script or unknown qualifier")
}

func atoi(s string) int {
	v, err := strconv.Atoi(s)
	if err != nil {
		panic(err)
	}
	return v
}

func (c *converter) index(n *Node) gen.Sub {
	if sl := n.Kid("slice"); sl != nil {
		parts := sl.KidsOf("anyIndex")
		s := gen.Sub{Kind: gen.KSlice}
		bound := func(a *Node) *int {
			t := c.text(a)
			if t == "" {
				return nil
			}
			v := atoi(t)
			return &v
		}
		s.Start, s.End = bound(parts[0]), bound(parts[1])
		if len(parts) > 2 {
			s.Step = bound(parts[2])
		} else {
			s.TwoPart = true
		}
		return s
	}
	if cap := n.Kid("<>"); cap != nil {
		return gen.Sub{Kind: gen.KIndex, N: atoi(c.text(cap))}
	}
	return gen.Sub{Kind: gen.KWild}
}

func (c *converter) query(n *Node) *gen.Query {
	ands := n.KidsOf("andQuery")
	q := c.andQuery(ands[0])
	for _, a := range ands[1:] {
		q = &gen.Query{Kind: gen.QOr, L: q, R: c.andQuery(a)}
	}
	return q
}

func (c *converter) andQuery(n *Node) *gen.Query {
	bs := n.KidsOf("basicQuery")
	q := c.basicQuery(bs[0])
	for _, b := range bs[1:] {
		q = &gen.Query{Kind: gen.QAnd, L: q, R: c.basicQuery(b)}
	}
	return q
}

func (c *converter) basicQuery(n *Node) *gen.Query {
	if sub := n.Kid("query"); sub != nil {
		return &gen.Query{Kind: gen.QParen, L: c.query(sub)}
	}
	cap := n.Kid("<>")
	if cmp := cap.Kid("comparator"); cmp != nil {
		return c.comparator(cmp)
	}
	jf := cap.Kid("jsonpathFilter")
	return &gen.Query{Kind: gen.QExists, Not: cap.Kid("logicNot") != nil, P: c.path(jf.Kid("jsonpathParameter"))}
}

func (c *converter) comparator(n *Node) *gen.Query {
	if re := n.Kid("<>"); re != nil && re.Kid("regex") != nil {
		left := n.Kid("singleJsonpathFilter")
		src := strings.ReplaceAll(c.text(re.Kid("regex")), `\/`, `/`)
		return &gen.Query{Kind: gen.QRegex, P: c.path(left.Find("jsonpathParameter")), Re: src}
	}
	var params []*Node
	for _, k := range n.Kids {
		if k.Rule == "qParam" || k.Rule == "qNumericParam" {
			params = append(params, k)
		}
	}
	if len(params) != 2 {
		panic("comparator without two operands")
	}
	op := strings.TrimSpace(string(c.in[params[0].End:params[1].Begin]))
	return &gen.Query{Kind: gen.QCmp, Op: op, A: c.operand(params[0]), B: c.operand(params[1])}
}

func (c *converter) operand(n *Node) *gen.Operand {
	if s := n.Kid("singleJsonpathFilter"); s != nil {
		return &gen.Operand{P: c.path(s.Find("jsonpathParameter"))}
	}
	var lit *Node
	if ql := n.Kid("qLiteral"); ql != nil {
		lit = ql.Kids[0]
	} else {
		lit = n.Kid("lNumber")
	}
	switch lit.Rule {
	case "lNumber":
		return &gen.Operand{IsLit: true, LK: gen.LNum, Num: c.text(lit)}
	case "lBool":
		return &gen.Operand{IsLit: true, LK: gen.LBool, Bool: strings.EqualFold(c.text(lit), "true")}
	case "lNull":
		return &gen.Operand{IsLit: true, LK: gen.LNull}
	case "lString":
		t := c.text(lit)
		return &gen.Operand{IsLit: true, LK: gen.LStr, SQ: t[0] == '\'', Str: UnescapeBackslash(c.text(lit.Kid("<>")))}
	}
	panic("unknown literal")
}
