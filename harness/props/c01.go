package props

import (
	"fmt"
	"hash/fnv"
	"reflect"
	"strings"

	"github.com/AsaiYusuke/jsonpath"
	"pgregory.net/rapid"

	"verif/harness/gen"
	"verif/harness/spec"
)

const ruleC01 = "path ASTs from G-AST (every step kind, depth<=5, nested filters<=2, trailing functions) rendered to text, " +
	"documents 60% path-directed / 40% free, both decode modes; library result compared with SPEC (sequence, multiplicity, order; " +
	"error iff SPEC selects nothing). Non-trivial: path has >=2 steps or a filter/function AND (SPEC selects >=1 value through a non-root step OR fails at a step after the first). " +
	"Distinct = distinct (path text, document text, decode mode)."

// drawPathDoc draws the common (path, document, mode) triple.
func drawPathDoc(rt *rapid.T, o gen.PathOpts, style bool) *Case {
	g := gen.NewG(rt, o)
	p := g.Path()
	var r gen.Rendered
	if style && gen.Uniform(rt, "styled", 3) == 0 {
		r = gen.Render(p, gen.RapidStyle{T: rt})
	} else {
		r = gen.Render(p, gen.Canon)
	}
	d := g.Doc(p)
	c := &Case{Path: r.Text, AST: p, Texts: r.Steps, Doc: d, DocKind: g.DocKind, UseNumber: rapid.Bool().Draw(rt, "usenumber"), Funcs: o.Funcs}
	if gen.Uniform(rt, "twin", 4) == 0 {
		c.Twin = gen.TwinText(rt, r.Text)
	}
	return c
}

// poisonPaths are rejected by Parse at different grammar actions, several of them after nodes
// and filter operands have already been built. Parsing one right before the case's own path
// checks "regardless of what was parsed before" inside the single-call properties as well.
var poisonPaths = []string{
	"$[0].b.x[?(@.a.unknown())]", "$.a[?(@.b =~ /(/ && @.c)]", "$.a[?(@.b == @.c)]", "$.a.b[?(@.* == 1)]", "$.a[?(@.b == 1e400)]",
	"$.a[0:99999999999999999999]", "$.a['b',", "$[?(@.a[?(@.b == 1) x])]", "$.a.f1().zz()", "$.a[(1)]", "$.a.b[0] x", "[?(@.a == 1 && )]",
}

func drawC01(rt *rapid.T) *Case {
	c := drawPathDoc(rt, gen.PathOpts{Funcs: true, RootOmit: true, FuncPct: 22, ReuseFuncs: true, LongPaths: true}, true)
	if gen.Uniform(rt, "poison", 6) == 0 {
		c.Strs = []string{poisonPaths[gen.Uniform(rt, "poisonpath", len(poisonPaths))]}
	}
	if gen.Uniform(rt, "shared", 7) == 0 {
		// a document in which one container is reachable by two paths (a DAG, not a tree)
		c.Ints = []int{1 + int(rapid.Uint32().Draw(rt, "shareseed"))}
	} else if gen.Uniform(rt, "edit", 5) == 0 {
		// a second content for the same document object: the caller edits its document in place
		// after the first evaluation and evaluates again
		g := gen.NewG(rt, gen.PathOpts{})
		if gen.Uniform(rt, "editkind", 2) == 0 {
			c.Docs = []*gen.DNode{g.Perturb(c.Doc)}
		} else {
			c.Docs = []*gen.DNode{g.Doc(c.AST)}
		}
	}
	return c
}

// retrieveResult is one library evaluation.
type retrieveResult struct {
	parseErr error
	got      []interface{}
	err      error
	rec      *Recorder
	// again evaluates the same path once more the way the case reached the library: the same
	// parsed function (Parse) or another Retrieve of the same text
	again func(doc interface{}) ([]interface{}, error)
	// lateBinding is non-empty when functions registered after Parse were called
	lateBinding string
}

// apiShape says how a case reaches the library. It is a pure function of the path text (so a
// replay takes the same route): Parse and a call of the returned function, or Retrieve; with the
// Config of the case, or - when the path uses no function and accessor mode is off, so that the
// Config cannot matter - with no Config argument at all.
type apiShape struct {
	retrieve bool
	bare     bool
}

func pickAPI(path string, accessor bool) apiShape {
	h := fnv.New32a()
	h.Write([]byte(path))
	v := (h.Sum32() >> 7) % 8
	a := apiShape{retrieve: v&1 == 1}
	if !accessor && !strings.Contains(path, "()") && v&6 == 2 {
		a.bare = true
	}
	return a
}

func (a apiShape) String() string {
	s := "Parse"
	if a.retrieve {
		s = "Retrieve"
	}
	if a.bare {
		return s + "(no Config)"
	}
	return s + "(Config)"
}

func evalLibrary(c *Case, doc interface{}, accessor bool) retrieveResult {
	rec := &Recorder{}
	// the order in which the Config is put together varies with the case (a pure function of the path)
	cfg := BuildConfigOrder(rec, c.Funcs, accessor, len(c.Path)%2 == 1)
	api := pickAPI(c.Path, accessor)
	if c.Twin != "" {
		// a path that differs from the case's own by one character (a blank dropped or added, a
		// letter's case, one character more or less) goes through the same entry point first:
		// whatever the library remembers about it must not answer for the case's path
		noteParseVia(c.Twin, c.Funcs && !api.bare, accessor && !api.bare, api.retrieve)
		switch {
		case api.retrieve && api.bare:
			_, _ = jsonpath.Retrieve(c.Twin, doc)
		case api.retrieve:
			_, _ = jsonpath.Retrieve(c.Twin, doc, cfg)
		case api.bare:
			_, _ = jsonpath.Parse(c.Twin)
		default:
			_, _ = jsonpath.Parse(c.Twin, cfg)
		}
		rec.Calls, rec.Errs = nil, 0
	}
	h := fnv.New32a()
	h.Write([]byte(c.Path))
	hv := h.Sum32() >> 11
	if hv%6 == 0 {
		// a Parse that is rejected half-way (inside a filter operand, after nodes were built ...) right
		// before: it must leave nothing behind for the case's own path
		poison := poisonPaths[int(hv/6)%len(poisonPaths)]
		noteParseVia(poison, true, accessor, false)
		_, _ = jsonpath.Parse(poison, BuildConfig(nil, true, accessor))
	}
	if c.Funcs && !api.bare && hv%5 == 2 {
		// somebody else's Config first: the same function NAMES (and the same mode) bound to other
		// functions, the same path text through the same entry point. What a path calls is decided by
		// the Config it is parsed with, not by the names that Config happens to use.
		decoy := decoyConfig(accessor, len(c.Path)%2 == 1)
		if api.retrieve {
			_, _ = jsonpath.Retrieve(c.Path, gen.MustDecode(tinyDoc, false), decoy)
		} else {
			_, _ = jsonpath.Parse(c.Path, decoy)
		}
	}
	noteParseVia(c.Path, c.Funcs && !api.bare, accessor && !api.bare, api.retrieve)
	reenterDoc := gen.MustDecode(tinyDoc, false)
	if api.retrieve {
		// the filter function "fre" re-enters the library while the outer call is in progress
		// (calls made inside are not logged); here through Retrieve, which parses again
		rec.Reenter = func() {
			if api.bare {
				_, _ = jsonpath.Retrieve(c.Path, reenterDoc)
			} else {
				_, _ = jsonpath.Retrieve(c.Path, reenterDoc, cfg)
			}
		}
		var got []interface{}
		var err error
		if api.bare {
			got, err = jsonpath.Retrieve(c.Path, doc)
		} else {
			got, err = jsonpath.Retrieve(c.Path, doc, cfg)
		}
		rec.Reenter = nil
		if err != nil && !DescribeErr(err).IsRuntime() {
			// Retrieve reports a rejected path and a failed evaluation through the same return value
			return retrieveResult{parseErr: err, rec: rec}
		}
		again := func(d interface{}) ([]interface{}, error) {
			if api.bare {
				return jsonpath.Retrieve(c.Path, d)
			}
			return jsonpath.Retrieve(c.Path, d, cfg)
		}
		return retrieveResult{got: got, err: err, rec: rec, again: again}
	}
	var f func(interface{}) ([]interface{}, error)
	var err error
	if api.bare {
		f, err = jsonpath.Parse(c.Path)
	} else {
		f, err = jsonpath.Parse(c.Path, cfg)
	}
	if err != nil {
		return retrieveResult{parseErr: err, rec: rec}
	}
	lateCalls := 0
	if !api.bare && c.Funcs && hv%4 == 1 {
		// the functions a path uses are those registered when it was parsed: registering other
		// functions under the same names on the same Config object afterwards changes nothing
		for _, name := range gen.FilterNames {
			cfg.SetFilterFunction(name, func(v interface{}) (interface{}, error) { lateCalls++; return "LATE", nil })
		}
		for _, name := range gen.AggNames {
			cfg.SetAggregateFunction(name, func(vs []interface{}) (interface{}, error) { lateCalls++; return "LATE", nil })
		}
	}
	// the filter function "fre" re-enters the library: it calls this same parsed function on a
	// small fixed document while the outer call is in progress (calls made inside are not logged)
	rec.Reenter = func() { _, _ = f(reenterDoc) }
	got, err := f(doc)
	rec.Reenter = nil
	if lateCalls > 0 {
		return retrieveResult{got: got, err: err, rec: rec, again: f, lateBinding: fmt.Sprintf("%d calls went to functions that were registered on the Config only after Parse had returned", lateCalls)}
	}
	return retrieveResult{got: got, err: err, rec: rec, again: f}
}

// decoyConfig registers every catalogue name, in the order BuildConfigOrder uses, with a function
// that has nothing to do with the catalogue's.
func decoyConfig(accessor, accessorFirst bool) jsonpath.Config {
	cfg := jsonpath.Config{}
	if accessor && accessorFirst {
		cfg.SetAccessorMode()
	}
	if accessorFirst {
		cfg.SetAggregateFunction("fboth", func(vs []interface{}) (interface{}, error) { return "DECOY", nil })
	}
	for _, name := range gen.FilterNames {
		cfg.SetFilterFunction(name, func(v interface{}) (interface{}, error) { return "DECOY", nil })
	}
	for _, name := range gen.AggNames {
		cfg.SetAggregateFunction(name, func(vs []interface{}) (interface{}, error) { return "DECOY", nil })
	}
	if !accessorFirst {
		cfg.SetAggregateFunction("fboth", func(vs []interface{}) (interface{}, error) { return "DECOY", nil })
	}
	if accessor && !accessorFirst {
		cfg.SetAccessorMode()
	}
	return cfg
}

// transplantInPlace makes the live document dst deep-equal to src while dst's root container
// keeps its identity (the same map, or the same slice of the same length): what a caller does
// who updates a document it holds and evaluates again. It reports whether that was possible.
func transplantInPlace(dst, src interface{}) bool {
	switch d := dst.(type) {
	case map[string]interface{}:
		s, ok := src.(map[string]interface{})
		if !ok {
			return false
		}
		for k := range d {
			delete(d, k)
		}
		for k, v := range s {
			d[k] = v
		}
		return true
	case []interface{}:
		s, ok := src.([]interface{})
		if !ok || len(s) != len(d) || len(d) == 0 {
			return false
		}
		copy(d, s)
		return true
	}
	return false
}

func flagString(c *Case) string {
	return fmt.Sprintf("usenumber=%v funcs=%v accessor=%v", c.UseNumber, c.Funcs, c.Accessor)
}

// classifyPath feeds the step-kind histograms.
func classifyPath(st *Stats, p *gen.Path) {
	prev := "^"
	for i := range p.Steps {
		tag := p.Steps[i].KindTag()
		st.Class("step:" + tag)
		st.Class("pair:" + prev + ">" + tag)
		prev = tag
	}
	plain := 0
	for i := range p.Steps {
		if p.Steps[i].Kind != gen.KFunc {
			plain++
		}
	}
	if plain >= 6 {
		st.Class("path:long(>=6 steps before the functions)")
	}
}

func bucket(n int) string {
	switch {
	case n == 0:
		return "0"
	case n == 1:
		return "1"
	case n <= 3:
		return "2-3"
	case n <= 10:
		return "4-10"
	}
	return ">10"
}

func checkC01(c *Case, st *Stats) string {
	doc := c.Document()
	specDoc := c.Document()
	docText := c.Doc.JSON()
	if len(c.Ints) > 0 {
		if c.Ints[0]%3 == 0 {
			// one array is a window of another array's storage (`head := all[:k]`)
			doc = gen.OverlapSlices(doc, uint64(c.Ints[0]))
			specDoc = gen.OverlapSlices(specDoc, uint64(c.Ints[0]))
			docText += fmt.Sprintf(" (one array a window of another, seed %d)", c.Ints[0])
			st.Class("doc:array-window-of-another")
		} else {
			doc = gen.ShareSubtrees(doc, uint64(c.Ints[0]))
			specDoc = gen.ShareSubtrees(specDoc, uint64(c.Ints[0]))
			docText += fmt.Sprintf(" (shared subtrees, seed %d)", c.Ints[0])
			st.Class("doc:shared-subtree")
		}
	}
	if c.Doc != nil && c.Doc.Depth() >= 14 {
		st.Class("doc:deep(>=14 levels)")
	}
	Journal(c.Check, c.Path, docText, flagString(c))
	if len(c.Strs) > 0 {
		// a rejected Parse right before: must leave nothing behind
		noteParse(c.Strs[0], true, false)
		_, _ = jsonpath.Parse(c.Strs[0], BuildConfig(nil, true, false))
		st.Class("preceded-by-rejected-parse")
	}
	lib := evalLibrary(c, doc, false)
	st.Eval(1)
	st.Class("api:" + pickAPI(c.Path, false).String())
	if c.Twin != "" {
		st.Class("preceded-by-twin-path")
	}
	if lib.lateBinding != "" {
		return lib.lateBinding
	}
	if lib.parseErr != nil {
		return fmt.Sprintf("generated path was rejected by Parse: %v", lib.parseErr)
	}
	res := spec.Eval(c.AST, specDoc, gen.PureFuncs{})
	classifyPath(st, c.AST)
	st.Class("results:" + bucket(len(res.Nodes)))
	if c.UseNumber {
		st.Class("mode:json.Number")
	} else {
		st.Class("mode:float64")
	}
	if res.Unspecified {
		st.Class("unspecified")
		return ""
	}
	einfo := DescribeErr(lib.err)
	if len(res.Nodes) == 0 {
		st.Class("outcome:error")
		st.Class("outcome:error:doc=" + c.DocKind)
		if len(res.Fails) > 0 {
			last := res.Fails[len(res.Fails)-1]
			st.Class("lastfail:" + last.Kind.String() + ":" + c.AST.Steps[last.Step].KindTag())
		}
		if lib.err == nil {
			return fmt.Sprintf("SPEC selects nothing but the library returned %s", JSONString(lib.got))
		}
		if !einfo.IsRuntime() {
			return fmt.Sprintf("SPEC selects nothing; library error is not a documented runtime error: %T %v", lib.err, lib.err)
		}
	} else {
		st.Class("outcome:values")
		st.Class("outcome:values:doc=" + c.DocKind)
		want := res.Values()
		if lib.err != nil {
			return fmt.Sprintf("SPEC selects %s but the library failed: %v", JSONString(want), lib.err)
		}
		if !reflect.DeepEqual(lib.got, want) {
			return fmt.Sprintf("result differs from SPEC:\n   got  %s\n   want %s", JSONString(lib.got), JSONString(want))
		}
	}
	if hv := len(c.Path) + len(docText); hv%8 == 5 && len(c.Ints) == 0 {
		// the same selection in accessor mode: the accessors lead to the values SPEC selects, in order
		if msg := accessorModeOnDoc(c, c.Document(), res, st); msg != "" {
			return msg
		}
	}
	if len(c.Docs) > 0 && lib.again != nil {
		// the document object is given new content in place, then evaluated again
		if transplantInPlace(doc, c.Docs[0].Build(c.UseNumber)) {
			st.Class("edited-in-place-and-evaluated-again")
			got2, err2 := lib.again(doc)
			st.Eval(1)
			res2 := spec.Eval(c.AST, c.Docs[0].Build(c.UseNumber), gen.PureFuncs{})
			if !res2.Unspecified {
				if len(res2.Nodes) == 0 {
					if err2 == nil {
						return fmt.Sprintf("after the document was given the content %s in place: SPEC selects nothing but the library returned %s", c.Docs[0].JSON(), JSONString(got2))
					}
				} else if err2 != nil || !reflect.DeepEqual(got2, res2.Values()) {
					return fmt.Sprintf("after the document was given the content %s in place: got (%s, %v), SPEC selects %s", c.Docs[0].JSON(), JSONString(got2), err2, JSONString(res2.Values()))
				}
			}
		}
	}
	// non-triviality
	nsteps := len(c.AST.Steps)
	interesting := nsteps >= 2 || c.AST.HasFilter() || c.AST.HasFunc()
	deep := false
	if len(res.Nodes) > 0 {
		deep = nsteps >= 1
	} else {
		for _, f := range res.Fails {
			if f.Step >= 1 {
				deep = true
			}
		}
	}
	if interesting && deep {
		st.NonTrivialCase(c.Path+"\x00"+docText+"\x00"+fmt.Sprint(c.UseNumber), func() interface{} {
			return map[string]interface{}{"path": c.Path, "doc": docText, "use_number": c.UseNumber,
				"spec_result_count": len(res.Nodes), "library_error": einfo.Text}
		})
		if len(res.Nodes) >= 2 {
			st.Class("nontrivial:>=2results")
		}
	}
	return ""
}

func init() {
	Register("TestC01_Spec", checkC01)
}
