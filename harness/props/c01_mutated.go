package props

import (
	"fmt"
	"reflect"

	"pgregory.net/rapid"

	"verif/harness/gen"
	"verif/harness/pegi"
	"verif/harness/spec"
)

const ruleC01Mut = "strings NOT rendered from an AST: 1..3 character/token mutations of rendered paths and of the suite's own paths, which PEGI derives from the published grammar and tree2ast converts back into an AST; documents directed at the unmutated AST, free documents and the suite's own documents; library result compared with SPEC exactly as in TestC01_Spec, failing cases also against SPEC's error candidates. " +
	"Non-trivial: the mutated string differs from every canonical rendering (it is not what the renderer would write for its AST) and has >=1 step. Distinct = distinct (string, document, mode)."

func drawC01Mut(rt *rapid.T) *Case {
	g := gen.NewG(rt, gen.PathOpts{Funcs: true, RootOmit: true, FuncPct: 20})
	p := g.Path()
	paths, docs := suiteCorpus()
	var text string
	if gen.Uniform(rt, "source", 3) == 0 && len(paths) > 0 {
		text = g.MutateText(paths[gen.Uniform(rt, "corp", len(paths))])
	} else {
		text = g.MutateText(gen.Render(p, gen.RapidStyle{T: rt, Free: gen.Uniform(rt, "free", 2) == 0}).Text)
	}
	c := &Case{Path: text, UseNumber: rapid.Bool().Draw(rt, "usenumber"), Funcs: true}
	if gen.Uniform(rt, "suitedoc", 4) == 0 && len(docs) > 0 {
		c.DocText = docs[gen.Uniform(rt, "doc", len(docs))]
	} else {
		c.Doc = g.Doc(p)
	}
	return c
}

func checkC01Mut(c *Case, st *Stats) string {
	g, gerr := theGrammar()
	if gerr != nil {
		return "harness: cannot load the published grammar: " + gerr.Error()
	}
	v := g.Parse(c.Path)
	if !v.Accepted {
		st.Class("string:not-derivable")
		return ""
	}
	if rs := pegi.Restrictions(v.Tree, v.Runes, pegi.CatalogueFuncs); len(rs) > 0 {
		st.Class("string:restricted")
		return ""
	}
	ast, texts, err := pegi.ToASTWithTexts(v.Tree, v.Runes, pegi.CatalogueFuncs)
	if err != nil {
		st.Class("string:unconvertible")
		return ""
	}
	docText := c.DocText
	if c.Doc != nil {
		docText = c.Doc.JSON()
	}
	var doc, specDoc interface{}
	if c.Doc != nil {
		doc, specDoc = c.Document(), c.Document()
	} else {
		var derr error
		if doc, derr = gen.Decode(c.DocText, c.UseNumber); derr != nil {
			st.Class("doc:undecodable")
			return ""
		}
		specDoc, _ = gen.Decode(c.DocText, c.UseNumber)
	}
	Journal(c.Check, c.Path, docText, flagString(c))
	lib := evalLibrary(c, doc, false)
	st.Eval(1)
	if lib.parseErr != nil {
		return fmt.Sprintf("the grammar derives the string and no restriction applies, but Parse rejected it: %v", lib.parseErr)
	}
	res := spec.Eval(ast, specDoc, gen.PureFuncs{})
	if res.Unspecified {
		st.Class("unspecified")
		return ""
	}
	info := DescribeErr(lib.err)
	if len(res.Nodes) == 0 {
		st.Class("outcome:error")
		if lib.err == nil {
			return fmt.Sprintf("SPEC selects nothing but the library returned %s", JSONString(lib.got))
		}
		if !info.IsRuntime() {
			return fmt.Sprintf("not a documented runtime error: %T %v", lib.err, lib.err)
		}
		if msg := matchRuntimeError(res, info, texts); msg != "" {
			return msg
		}
	} else {
		st.Class("outcome:values")
		if lib.err != nil {
			return fmt.Sprintf("SPEC selects %s but the library failed: %v", JSONString(res.Values()), lib.err)
		}
		if !reflect.DeepEqual(lib.got, res.Values()) {
			return fmt.Sprintf("result differs from SPEC:\n   got  %s\n   want %s", JSONString(lib.got), JSONString(res.Values()))
		}
	}
	classifyPath(st, ast)
	if len(ast.Steps) >= 1 && gen.Render(ast, gen.Canon).Text != c.Path {
		st.Class("nontrivial")
		st.NonTrivialCase(c.Path+"\x00"+docText+fmt.Sprint(c.UseNumber), func() interface{} {
			return map[string]interface{}{"path": c.Path, "canonical": gen.Render(ast, gen.Canon).Text, "doc": docText, "results": len(res.Nodes), "error": info.Text}
		})
	}
	return ""
}

func init() {
	Register("TestC01_Mutated", checkC01Mut)
}
