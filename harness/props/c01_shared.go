package props

import (
	"fmt"
	"sync"

	"github.com/AsaiYusuke/jsonpath"
	"pgregory.net/rapid"

	"verif/harness/gen"
	"verif/harness/spec"
)

// TestC01_SharedParsed: what a parsed path selects is a function of the path and of the document
// it is called with - also while other goroutines are calling the very same parsed function with
// other documents. Scratch state kept on the nodes of the parsed tree (index lists, buffers,
// counters) answers for the wrong document exactly then.

const ruleC01Shared = "under the race detector: ONE parsed G-AST path (the generator of TestC01_Spec without long paths; function catalogue registered) shared by 2..5 goroutines, each evaluating it 30..150 times on its own document drawn for the same path (one of them may be the path's document with arrays lengthened or shortened); every result compared with SPEC's, computed beforehand without the library. Non-trivial: >= 2 goroutines expect different non-empty selections."

func drawC01Shared(rt *rapid.T) *Case {
	g := gen.NewG(rt, gen.PathOpts{Funcs: gen.Uniform(rt, "funcs", 3) == 0, RootOmit: true, FuncPct: 22, ReuseFuncs: true, NoDeepDocs: true})
	p := g.Path()
	c := &Case{Path: gen.Render(p, gen.Canon).Text, AST: p, UseNumber: rapid.Bool().Draw(rt, "usenumber"), Funcs: true}
	n := 2 + gen.Uniform(rt, "goroutines", 4)
	for i := 0; i < n; i++ {
		d := g.Doc(p)
		if i > 0 && gen.Uniform(rt, "perturb", 3) == 0 {
			d = g.Perturb(c.Docs[0])
		}
		c.Docs = append(c.Docs, d)
	}
	c.Ints = []int{30 + gen.Uniform(rt, "iters", 121)}
	return c
}

func checkC01Shared(c *Case, st *Stats) string {
	Pending(c)
	f, err := jsonpath.Parse(c.Path, BuildConfig(nil, true, false))
	if err != nil {
		return fmt.Sprintf("generated path %q was rejected by Parse: %v", c.Path, err)
	}
	iters := c.Ints[0]
	docs := make([]interface{}, len(c.Docs))
	want := make([]string, len(c.Docs))
	for i, d := range c.Docs {
		docs[i] = d.Build(c.UseNumber)
		res := spec.Eval(c.AST, d.Build(c.UseNumber), gen.PureFuncs{})
		switch {
		case res.Unspecified:
			want[i] = ""
		case len(res.Nodes) == 0:
			want[i] = "ERR"
		default:
			want[i] = JSONString(res.Values())
		}
	}
	mismatch := make([]string, len(docs))
	var wg sync.WaitGroup
	start := make(chan struct{})
	for g := range docs {
		g := g
		wg.Add(1)
		go func() {
			defer wg.Done()
			defer func() {
				if r := recover(); r != nil && mismatch[g] == "" {
					mismatch[g] = fmt.Sprintf("goroutine %d panicked: %v", g, r)
				}
			}()
			<-start
			for k := 0; k < iters; k++ {
				got, err := f(docs[g])
				s := "ERR"
				if err == nil {
					s = JSONString(got)
				} else if !DescribeErr(err).IsRuntime() {
					s = "UNDOCUMENTED " + err.Error()
				}
				if want[g] != "" && s != want[g] && mismatch[g] == "" {
					mismatch[g] = fmt.Sprintf("goroutine %d on %s, iteration %d: selected %s, SPEC selects %s", g, c.Docs[g].JSON(), k, s, want[g])
				}
			}
		}()
	}
	close(start)
	wg.Wait()
	st.Eval(len(docs) * iters)
	for _, m := range mismatch {
		if m != "" {
			return m
		}
	}
	distinct := map[string]bool{}
	for _, w := range want {
		if w != "" && w != "ERR" {
			distinct[w] = true
		}
	}
	if len(distinct) >= 2 {
		st.Class("nontrivial")
		st.NonTrivialCase(c.Path+fmt.Sprint(want), func() interface{} {
			return map[string]interface{}{"path": c.Path, "goroutines": len(docs), "iterations": iters, "expected_selections": want}
		})
	}
	return ""
}

func init() { Register("TestC01_SharedParsed", checkC01Shared) }
