package props

import "testing"

func TestC01_Spec(t *testing.T) {
	checkRapid(t, "C01", "TestC01_Spec", ruleC01, drawC01)
}

func TestC01_Mutated(t *testing.T) {
	checkRapid(t, "C01", "TestC01_Mutated", ruleC01Mut, drawC01Mut)
}

func TestC01_SharedParsed(t *testing.T) {
	checkRapid(t, "C01", "TestC01_SharedParsed", ruleC01Shared, drawC01Shared)
}
