package props

import "testing"

func TestC01_Spec(t *testing.T) {
	checkRapid(t, "C01", "TestC01_Spec", ruleC01, drawC01)
}
