package props

import (
	"encoding/json"
	"fmt"
	"os"
	"path/filepath"
	"reflect"
	"strconv"
	"strings"
	"sync"
	"unicode/utf8"

	"github.com/AsaiYusuke/jsonpath"
	"pgregory.net/rapid"

	"verif/harness/gen"
	"verif/harness/suite"
)

const ruleC02 = "strings <= 256 characters from G-MUT: rendered ASTs (canonical and free spelling), character/token mutations of them and of the suite's own paths, token soup, arbitrary Unicode, arbitrary bytes (invalid UTF-8), integer literals around the int limits, sentences derived top-down from /repo/jsonpath.peg itself (scripts, odd literals, every escape form), and deep nestings (filters in filter operands to depth 31, parentheses, logical chains, unions) within 256 characters; a watchdog aborts any case that exceeds 20 s (confirmed by replay) for the bounded-time clause; " +
	"each parsed under one of 4 configs (none/functions/accessor/both) and, for 7 strings in 8, also with a list of 2..3 Configs (empty first, accessor-only first, filter-only + aggregate-only in both orders, ...); plus the bounded-exhaustive reduced grammar (enumerated completely by TestC02_Reduced). " +
	"Oracle: exactly one of (f,nil)/(nil, one of the 4 documented syntax-check error types), Retrieve agrees with Parse, a returned function is callable. " +
	"Non-trivial: rejected somewhere after offset 0, or rejected by a semantic restriction, or accepted with >=1 step. Distinct = distinct (string, config)."

var corpusOnce sync.Once
var corpus []string
var corpusDocs []string

// suiteCorpus returns the suite's own paths (extracted from /repo, falling back to the
// committed copy under /verif/corpus).
func suiteCorpus() ([]string, []string) {
	corpusOnce.Do(func() {
		cases, _, err := suite.Extract(filepath.Join(repoDirNT(), "test_jsonpath_test.go"))
		if err == nil && len(cases) > 100 {
			seen := map[string]bool{}
			for _, c := range cases {
				if !seen[c.Path] {
					seen[c.Path] = true
					corpus = append(corpus, c.Path)
				}
				if c.Input != "" && !seen["\x00"+c.Input] {
					seen["\x00"+c.Input] = true
					corpusDocs = append(corpusDocs, c.Input)
				}
			}
			return
		}
		dir := os.Getenv("VERIF_DIR")
		if dir == "" {
			dir = "/verif"
		}
		if b, err := os.ReadFile(filepath.Join(dir, "corpus", "suite_paths.json")); err == nil {
			_ = json.Unmarshal(b, &corpus)
		}
		if b, err := os.ReadFile(filepath.Join(dir, "corpus", "suite_docs.json")); err == nil {
			_ = json.Unmarshal(b, &corpusDocs)
		}
	})
	return corpus, corpusDocs
}

func repoDirNT() string {
	if d := os.Getenv("VERIF_REPO"); d != "" {
		return d
	}
	return "/repo"
}

func drawC02(rt *rapid.T) *Case {
	g := gen.NewG(rt, gen.PathOpts{Funcs: true, RootOmit: true, BigInts: true, FuncPct: 25})
	paths, _ := suiteCorpus()
	s, fam := g.MutString(paths)
	if gs, ok := grammarSentence(rt); ok {
		s, fam = gs, famGrammar
	}
	cfg := gen.Uniform(rt, "config", 4)
	return &Case{Path: s, Funcs: cfg&1 == 1, Accessor: cfg&2 == 2, Strs: []string{fam}}
}

const famGrammar = "grammar-derived"

// grammarSentence derives, for one case in eight, a sentence directly from /repo/jsonpath.peg
// (random top-down expansion of the published grammar, sometimes mutated once): it reaches
// constructs the AST renderer never writes (scripts, odd number literals, every escape form).
func grammarSentence(rt *rapid.T) (string, bool) {
	if gen.Uniform(rt, "grammar-derived", 8) != 0 {
		return "", false
	}
	g, err := theGrammar()
	if err != nil {
		return "", false
	}
	s := g.Generate("jsonpath", func(n int) int { return gen.Uniform(rt, "g", n) }, 6+gen.Uniform(rt, "gdepth", 10))
	if r := []rune(s); len(r) > 256 {
		s = string(r[:256])
	}
	return s, true
}

var tinyDoc = `{"a":[1,{"b":2,"a":"x"}],"b":{"a":1}}`

// hardDocs: members of every type under the names the generators use, numbers at and beyond the
// float64 range (decoded with UseNumber).
var hardDocs = []string{
	`[{"a":1,"b":"x"},{"a":1e400,"b":2},{"a":3,"b":null},{"a":"s","b":[1e999]},{"a":-1e400},{"a":true},{"a":null},{"a":[1]},{"a":{"a":2}},{"b":1},5,1e999,"s",null,[1,1e400]]`,
	`{"a":[1,1e400,"x",null,{"a":1e999,"b":1}],"b":{"a":1e400,"b":-1e999,"c":[{"a":1},{"a":1e400}]},"c":1e999,"d":"x","list":[{"v":1},{"v":1e999},{"v":"1"}],"x":1e400,"y":1}`,
}

// parseOutcome validates the (f, err) pair of Parse; returns "" when it is one of the two
// documented shapes.
func parseOutcome(f func(interface{}) ([]interface{}, error), err error) string {
	switch {
	case f == nil && err == nil:
		return "Parse returned (nil, nil)"
	case f != nil && err != nil:
		return fmt.Sprintf("Parse returned a function together with an error: %T %v", err, err)
	case err != nil && !DescribeErr(err).IsSyntax():
		return fmt.Sprintf("Parse returned an error of undocumented type %s: %v", reflect.TypeOf(err), err)
	}
	return ""
}

// runtimeOutcome validates the (result, err) pair of an evaluation.
func runtimeOutcome(got []interface{}, err error) string {
	switch {
	case err == nil && len(got) == 0:
		return fmt.Sprintf("evaluation returned an empty success (%#v, nil)", got)
	case err != nil && got != nil:
		return fmt.Sprintf("evaluation returned a non-nil slice together with an error: %v", err)
	case err != nil && !DescribeErr(err).IsRuntime():
		return fmt.Sprintf("evaluation returned an error of undocumented type %s: %v", reflect.TypeOf(err), err)
	}
	return ""
}

func parseWith(path string, funcs, accessor bool, rec *Recorder) (func(interface{}) ([]interface{}, error), error) {
	noteParse(path, funcs, accessor)
	if !funcs && !accessor {
		return jsonpath.Parse(path)
	}
	return jsonpath.Parse(path, BuildConfig(rec, funcs, accessor))
}

func checkC02(c *Case, st *Stats) string {
	Journal(c.Check, c.Path, "", flagString(c))
	rec := &Recorder{}
	f, err := parseWith(c.Path, c.Funcs, c.Accessor, rec)
	st.Eval(1)
	fam := "?"
	if len(c.Strs) > 0 {
		fam = c.Strs[0]
	}
	if msg := parseOutcome(f, err); msg != "" {
		return msg
	}
	info := DescribeErr(err)
	// Retrieve must agree with Parse on the parse outcome
	var got []interface{}
	var rerr error
	if !c.Funcs && !c.Accessor {
		got, rerr = jsonpath.Retrieve(c.Path, nil)
	} else {
		got, rerr = jsonpath.Retrieve(c.Path, nil, BuildConfig(&Recorder{}, c.Funcs, c.Accessor))
	}
	st.Eval(1)
	if err != nil {
		st.Class("outcome:" + info.Type)
		st.Class("family:" + fam + ":" + info.Type)
		if rerr == nil || reflect.TypeOf(rerr) != reflect.TypeOf(err) || rerr.Error() != err.Error() {
			return fmt.Sprintf("Retrieve disagrees with Parse: Parse error %q, Retrieve (%v, %v)", err, got, rerr)
		}
		if got != nil {
			return "Retrieve returned a result together with a syntax error"
		}
	} else {
		st.Class("outcome:accepted")
		st.Class("family:" + fam + ":accepted")
		if rerr != nil && DescribeErr(rerr).IsSyntax() {
			return fmt.Sprintf("Retrieve rejected a path that Parse accepted: %v", rerr)
		}
		if msg := runtimeOutcome(got, rerr); msg != "" {
			return "Retrieve on nil: " + msg
		}
		// the function is usable
		out, e2 := f(gen.MustDecode(tinyDoc, false))
		st.Eval(1)
		if msg := runtimeOutcome(out, e2); msg != "" {
			return "parsed function on a small document: " + msg
		}
		// ... also on documents with every JSON type side by side, decoded with UseNumber, holding
		// numbers only json.Number can hold
		for _, hd := range hardDocs {
			out, e2 = f(gen.MustDecode(hd, true))
			st.Eval(1)
			if msg := runtimeOutcome(out, e2); msg != "" {
				return "parsed function on " + hd + " (UseNumber): " + msg
			}
		}
		// ... and on a document built in Go whose members hold values of one uncomparable type
		out, e2 = f(goBuiltHardDoc())
		st.Eval(1)
		if msg := runtimeOutcome(out, e2); msg != "" {
			return "parsed function on a document with []string / map[string]int members: " + msg
		}
	}
	if msg := severalConfigs(c, st); msg != "" {
		return msg
	}
	if utf8.ValidString(c.Path) {
		st.Class("utf8:valid")
	} else {
		st.Class("utf8:invalid")
	}
	nontrivial := false
	if err == nil {
		nontrivial = len(c.Path) > 1
	} else if info.Type != "ErrorInvalidSyntax" {
		nontrivial = true
	} else {
		nontrivial = !strings.Contains(info.Text, "position=0,")
	}
	if nontrivial {
		st.Class("nontrivial")
		st.NonTrivialCase(c.Path+"\x00"+flagString(c), func() interface{} {
			return map[string]interface{}{"path": c.Path, "family": fam, "funcs": c.Funcs, "accessor": c.Accessor, "outcome": outcomeText(err)}
		})
	}
	return ""
}

// configList builds the variadic Config list of shape k (1..7): Parse takes `config ...Config`,
// so a caller may pass several, in any order, some of them empty.
func configList(k int) []jsonpath.Config {
	full := BuildConfig(nil, true, false)
	fullAcc := BuildConfig(nil, true, true)
	var accOnly, filterOnly, aggOnly jsonpath.Config
	accOnly.SetAccessorMode()
	for _, name := range gen.FilterNames {
		name := name
		filterOnly.SetFilterFunction(name, func(v interface{}) (interface{}, error) { return gen.ApplyFilter(name, v) })
	}
	for _, name := range gen.AggNames {
		name := name
		aggOnly.SetAggregateFunction(name, func(vs []interface{}) (interface{}, error) { return gen.ApplyAggregate(name, vs) })
	}
	switch k {
	case 1:
		return []jsonpath.Config{{}, full}
	case 2:
		return []jsonpath.Config{accOnly, full}
	case 3:
		return []jsonpath.Config{aggOnly, filterOnly}
	case 4:
		return []jsonpath.Config{filterOnly, aggOnly}
	case 5:
		return []jsonpath.Config{full, {}}
	case 6:
		return []jsonpath.Config{full, fullAcc}
	}
	return []jsonpath.Config{{}, {}, fullAcc}
}

// severalConfigs: the same string parsed with a list of Configs (shape chosen by the string) is
// subject to the same totality contract, for Parse and for Retrieve.
func severalConfigs(c *Case, st *Stats) string {
	k := len(c.Path)
	for i := 0; i < len(c.Path); i++ {
		k += int(c.Path[i])
	}
	k %= 10
	if k == 0 {
		return ""
	}
	var cfgs []jsonpath.Config
	if k == 9 {
		// a Config list that happens to be empty (not nil), spread into the call
		cfgs = []jsonpath.Config{}
		f, err := jsonpath.Parse(c.Path, cfgs...)
		st.Eval(1)
		st.Class("several-configs:empty-slice")
		if msg := parseOutcome(f, err); msg != "" {
			return "with an empty Config slice spread into the call: " + msg
		}
		f0, err0 := jsonpath.Parse(c.Path)
		if (err == nil) != (err0 == nil) || (err != nil && (reflect.TypeOf(err) != reflect.TypeOf(err0) || err.Error() != err0.Error())) {
			return fmt.Sprintf("Parse(path, emptySlice...) gives %v, Parse(path) gives %v", err, err0)
		}
		_ = f0
		return ""
	}
	if k == 8 {
		// one Config that also registers functions under names no path can spell (empty, with a
		// blank, a dot, non-ASCII): such a Config is still a Config
		odd := BuildConfig(nil, true, false)
		id := func(v interface{}) (interface{}, error) { return v, nil }
		for _, n := range []string{"", "a b", "f.1", "é", "()", "f1 "} {
			odd.SetFilterFunction(n, id)
		}
		odd.SetAggregateFunction("", func(vs []interface{}) (interface{}, error) { return float64(len(vs)), nil })
		odd.SetAggregateFunction("g 1", func(vs []interface{}) (interface{}, error) { return float64(len(vs)), nil })
		cfgs = []jsonpath.Config{odd}
	} else {
		cfgs = configList(k)
	}
	f, err := jsonpath.Parse(c.Path, cfgs...)
	noteParse(c.Path, true, true)
	st.Eval(1)
	st.Class(fmt.Sprintf("several-configs:shape%d", k))
	if msg := parseOutcome(f, err); msg != "" {
		return fmt.Sprintf("with %d Configs (shape %d): %s", len(cfgs), k, msg)
	}
	got, rerr := jsonpath.Retrieve(c.Path, gen.MustDecode(tinyDoc, false), cfgs...)
	noteParse(c.Path, true, true)
	if err != nil {
		if rerr == nil || reflect.TypeOf(rerr) != reflect.TypeOf(err) || got != nil {
			return fmt.Sprintf("with %d Configs (shape %d): Parse error %q, Retrieve (%v, %v)", len(cfgs), k, err, got, rerr)
		}
		return ""
	}
	if rerr != nil && DescribeErr(rerr).IsSyntax() {
		return fmt.Sprintf("with %d Configs (shape %d): Retrieve rejected a path that Parse accepted: %v", len(cfgs), k, rerr)
	}
	if msg := runtimeOutcome(got, rerr); msg != "" {
		return fmt.Sprintf("with %d Configs (shape %d): Retrieve: %s", len(cfgs), k, msg)
	}
	out, e2 := f(gen.MustDecode(tinyDoc, false))
	if msg := runtimeOutcome(out, e2); msg != "" {
		return fmt.Sprintf("with %d Configs (shape %d): parsed function on a small document: %s", len(cfgs), k, msg)
	}
	return ""
}

func outcomeText(err error) string {
	if err == nil {
		return "accepted"
	}
	return reflect.TypeOf(err).Name() + ": " + err.Error()
}

// checkC02Reduced runs the whole reduced grammar under the 4 configs (Ints[0] selects the
// slice of the enumeration handled by this shard: index mod nshards).
func checkC02Reduced(c *Case, st *Stats) string {
	return checkC02(c, st)
}

func init() {
	Register("TestC02_Total", checkC02)
	Register("TestC02_Reduced", checkC02Reduced)
	for _, p := range []string{"$[?(1 < 2)]", "$[?($.a > 1)]", "[?(0<=1)]", "$[?(@.g1().g2() == 1)]", "$[?(!$.g1().g2())]", "$[?($.a >= $.b)]", "$[?(1 <= 1)]"} {
		AddSeed("TestC02_Total", &Case{Path: p, Funcs: true, Strs: []string{"seed-D3-D4"}})
	}
}

func shardInfo() (int, int) {
	shard, _ := strconv.Atoi(os.Getenv("VERIF_SHARD"))
	n, _ := strconv.Atoi(os.Getenv("VERIF_NSHARDS"))
	if n <= 0 {
		n = 1
	}
	return shard, n
}
