package props

import (
	"testing"

	"verif/harness/gen"
)

func TestC02_Total(t *testing.T) {
	checkRapid(t, "C02", "TestC02_Total", ruleC02, drawC02)
}

// runEnumerated runs a deterministic enumeration, sharded by index.
func runEnumerated(t *testing.T, property, check, rule string, n int, mk func(i int) *Case) {
	st := NewStats(property, check, rule)
	st.Exhaustive = true
	defer st.Flush()
	startWatchdog()
	runSeeds(t, property, check, st)
	fn := replayers[check]
	shard, nshards := shardInfo()
	for i := 0; i < n; i++ {
		if i%nshards != shard {
			continue
		}
		c := mk(i)
		c.Property, c.Check = property, check
		st.Case()
		enterCase(c)
		msg := safeRun(fn, c, st)
		leaveCase()
		if msg != "" {
			Fail(t, c, "%s", msg)
		}
	}
}

func TestC02_Reduced(t *testing.T) {
	sentences := gen.ReducedSentences()
	runEnumerated(t, "C02", "TestC02_Reduced",
		"bounded-exhaustive reduced grammar: every sequence of <=3 steps over 18 step forms, every comparison over 15 operand forms x 6 operators x both orders (+ regex, existence, negation), two-term &&/|| combinations; each under 4 configs; enumerated completely",
		4*len(sentences), func(i int) *Case {
			cfg := i % 4
			return &Case{Path: sentences[i/4], Funcs: cfg&1 == 1, Accessor: cfg&2 == 2, Strs: []string{"reduced-grammar"}}
		})
}
