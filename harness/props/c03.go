package props

import (
	"fmt"
	"strings"

	"github.com/AsaiYusuke/jsonpath"

	"pgregory.net/rapid"

	"verif/harness/gen"
	"verif/harness/pegi"
	"verif/harness/spec"
)

const ruleC03 = "every path the C02 generators produce that Parse accepts (rendered ASTs in canonical/free spelling, 1-3 character/token mutations of them, boundary integers) x documents (directed at the unmutated AST, free, empty containers, null and scalar roots; one in ten with non-JSON Go values in place of leaves, sub-containers or the root: pointers, typed nils, uncomparable types), float64 and json.Number decoding, with the function catalogue (functions that fail on some inputs). " +
	"Oracle: (non-empty result, nil) or (nil, ErrorMemberNotExist|ErrorTypeUnmatched|ErrorFunctionFailed); ErrorFunctionFailed only if a user function returned an error during the call; where PEGI can convert the accepted string to an AST, SPEC selects nothing <=> the library fails. " +
	"Non-trivial: the path has >=1 non-root step and the document is a container. Distinct = distinct (path, document, mode)."

func drawC03(rt *rapid.T) *Case {
	dockind := gen.Uniform(rt, "dockind", 20)
	opaque := dockind == 2 || dockind == 3
	// non-JSON documents get filter-heavy paths (comparisons are where Go values of arbitrary type hurt)
	g := gen.NewG(rt, gen.PathOpts{Funcs: true, RootOmit: true, BigInts: true, FuncPct: 30, OperandFuncPct: 15, FilterHeavy: opaque, LongPaths: true})
	p := g.Path()
	var text, fam string
	switch k := gen.Uniform(rt, "textkind", 10); {
	case k < 3:
		text, fam = gen.Render(p, gen.Canon).Text, gen.FamRender
	case k < 5:
		text, fam = gen.Render(p, gen.RapidStyle{T: rt, Free: true}).Text, gen.FamStyled
	default:
		text, fam = g.MutateText(gen.Render(p, gen.Canon).Text), gen.FamMutGen
	}
	var d *gen.DNode
	switch k := dockind; {
	case k == 0:
		d = gen.Null()
	case k == 1:
		d = g.Leaf()
	case k < 4:
		// "every source value": not everything a caller passes was decoded from JSON
		d = g.Opaquify(g.Doc(p))
	default:
		d = g.Doc(p)
	}
	return &Case{Path: text, Doc: d, UseNumber: rapid.Bool().Draw(rt, "usenumber"), Funcs: true, Accessor: gen.Uniform(rt, "accessor", 4) == 0, Strs: []string{fam}}
}

// checkC03Text is checkC03 for cases whose document is given as text (native fuzzing, replays).
func checkC03Text(c *Case, st *Stats) string { return checkC03(c, st) }

func checkC03(c *Case, st *Stats) string {
	docText := c.DocText
	if c.Doc != nil {
		docText = c.Doc.JSON()
	}
	Journal(c.Check, c.Path, docText, flagString(c))
	if len(c.Path)%23 == 7 {
		// somebody's user function panicked in the middle of an earlier retrieval (and was recovered)
		panickingRetrieval(len(docText), 1+len(docText)%4)
		st.Class("preceded-by-a-panicking-retrieval")
	}
	rec := &Recorder{}
	var got []interface{}
	var rerr error
	var doc interface{}
	if api := pickAPI(c.Path, c.Accessor); api.retrieve {
		// the one-call form: Retrieve parses and evaluates (user functions run inside it)
		doc = c.Document()
		cfg := BuildConfig(rec, c.Funcs, c.Accessor)
		noteParseVia(c.Path, c.Funcs, c.Accessor, true)
		got, rerr = jsonpath.Retrieve(c.Path, doc, cfg)
		if rerr != nil && DescribeErr(rerr).IsSyntax() {
			st.Class("parse:rejected")
			return ""
		}
		st.Class("api:Retrieve")
	} else {
		var f func(interface{}) ([]interface{}, error)
		var err error
		if c.Funcs && len(c.Path)%3 == 1 {
			// the caller goes on using its Config after Parse: it withdraws every function (registers
			// nil under the names) before the parsed function is called. What a path calls was decided
			// when it was parsed; nothing the Config is told afterwards may make a call fail or panic.
			cfg := BuildConfig(rec, true, c.Accessor)
			noteParse(c.Path, true, c.Accessor)
			f, err = jsonpath.Parse(c.Path, cfg)
			for _, name := range gen.FilterNames {
				cfg.SetFilterFunction(name, nil)
			}
			for _, name := range gen.AggNames {
				cfg.SetAggregateFunction(name, nil)
			}
			st.Class("config:functions-withdrawn-after-parse")
		} else {
			f, err = parseWith(c.Path, c.Funcs, c.Accessor, rec)
		}
		if err != nil || f == nil {
			st.Class("parse:rejected")
			return ""
		}
		doc = c.Document()
		got, rerr = f(doc)
		st.Class("api:Parse")
	}
	st.Class("parse:accepted")
	st.Eval(1)
	if msg := runtimeOutcome(got, rerr); msg != "" {
		return msg
	}
	if c.Accessor {
		st.Class("mode:accessor")
		for i, v := range got {
			a, ok := v.(jsonpath.Accessor)
			if !ok || a.Get == nil {
				return fmt.Sprintf("accessor mode: result %d is %T (or has a nil Get)", i, v)
			}
		}
	}
	info := DescribeErr(rerr)
	if info.Type == "ErrorFunctionFailed" && rec.Errs == 0 {
		return fmt.Sprintf("ErrorFunctionFailed although no user function returned an error: %v", rerr)
	}
	outcome := "values"
	if rerr != nil {
		outcome = info.Type
	}
	st.Class("outcome:" + outcome)
	root := "container"
	switch doc.(type) {
	case nil:
		root = "null"
	case map[string]interface{}, []interface{}:
	default:
		root = "scalar"
		if spec.IsOpaque(doc) {
			root = "non-JSON value"
		}
	}
	st.Class("root:" + root)
	// cross-check "matches nothing <=> error" with SPEC whenever the accepted string converts to an AST
	if g, gerr := theGrammar(); gerr == nil {
		v := g.Parse(c.Path)
		if v.Accepted {
			if ast, aerr := pegi.ToAST(v.Tree, v.Runes, pegi.CatalogueFuncs); aerr == nil {
				res := spec.Eval(ast, c.Document(), gen.PureFuncs{})
				st.Class("spec:checked")
				if !res.Unspecified && (len(res.Nodes) == 0) != (rerr != nil) {
					return fmt.Sprintf("SPEC selects %d values but the library returned (%s, %v)", len(res.Nodes), JSONString(got), rerr)
				}
			}
		}
	}
	if root == "container" && len(c.Path) > 1 {
		st.Class("nontrivial:" + outcome)
		st.NonTrivialCase(c.Path+"\x00"+docText+fmt.Sprint(c.UseNumber), func() interface{} {
			return map[string]interface{}{"path": c.Path, "doc": docText, "use_number": c.UseNumber, "outcome": outcome}
		})
	}
	return ""
}

// checkC03Reduced: every sentence of the reduced grammar that Parse accepts (under the case's
// Config) is evaluated on the small document, on the hard documents (every JSON type side by
// side, numbers beyond the float64 range, UseNumber) and on a document built in Go whose members
// hold values of one uncomparable type: each evaluation ends in values or a documented error.
func checkC03Reduced(c *Case, st *Stats) string {
	Journal(c.Check, c.Path, "", flagString(c))
	rec := &Recorder{}
	f, err := parseWith(c.Path, c.Funcs, c.Accessor, rec)
	if err != nil || f == nil {
		st.Class("parse:rejected")
		return ""
	}
	st.Class("parse:accepted")
	docs := []interface{}{gen.MustDecode(tinyDoc, false), goBuiltHardDoc()}
	for _, hd := range hardDocs {
		docs = append(docs, gen.MustDecode(hd, true), gen.MustDecode(hardDocFloat(hd), false))
	}
	for i, doc := range docs {
		rec.Errs = 0
		got, rerr := f(doc)
		st.Eval(1)
		if msg := runtimeOutcome(got, rerr); msg != "" {
			return fmt.Sprintf("on document %d: %s", i, msg)
		}
		if DescribeErr(rerr).Type == "ErrorFunctionFailed" && rec.Errs == 0 {
			return fmt.Sprintf("on document %d: ErrorFunctionFailed although no user function returned an error: %v", i, rerr)
		}
	}
	st.Class("nontrivial")
	st.NonTrivialCase(c.Path+fmt.Sprint(c.Funcs, c.Accessor), func() interface{} {
		return map[string]interface{}{"path": c.Path, "funcs": c.Funcs, "accessor": c.Accessor, "documents": len(docs)}
	})
	return ""
}

// hardDocFloat is the hard document with the numbers float64 cannot hold replaced.
func hardDocFloat(s string) string {
	s = strings.ReplaceAll(s, "-1e400", "-1e300")
	s = strings.ReplaceAll(s, "1e400", "1e300")
	s = strings.ReplaceAll(s, "-1e999", "-1e308")
	return strings.ReplaceAll(s, "1e999", "1e308")
}

// goBuiltHardDoc: values encoding/json never produces, several of one uncomparable Go type, under
// the names the reduced grammar uses.
func goBuiltHardDoc() interface{} {
	tags := func() interface{} { return []string{"x", "y"} }
	return map[string]interface{}{
		"a": tags(), "b": tags(), "c": map[string]int{"n": 1},
		"list": []interface{}{map[string]interface{}{"a": tags(), "b": tags()}, map[string]interface{}{"a": map[string]int{"n": 1}, "b": map[string]int{"n": 1}}, tags(), 1.0},
		"0":    []interface{}{tags(), tags()},
	}
}

func init() {
	Register("TestC03_Reduced", checkC03Reduced)
	Register("TestC03_Total", checkC03)
	Register("TestC03_Text", checkC03Text)
	for _, p := range []string{"$[1::9223372036854775807]", "$[::-9223372036854775808]", "$[-9223372036854775808:9223372036854775807:9223372036854775807]", "$[9223372036854775807]", "$[-9223372036854775808]"} {
		AddSeed("TestC03_Total", &Case{Path: p, Doc: gen.Arr(gen.Num(1), gen.Num(2), gen.Num(3)), Funcs: true})
	}
}
