package props

import "testing"

func TestC03_Total(t *testing.T) {
	checkRapid(t, "C03", "TestC03_Total", ruleC03, drawC03)
}
