package props

import (
	"testing"

	"verif/harness/gen"
)

func TestC03_Total(t *testing.T) {
	checkRapid(t, "C03", "TestC03_Total", ruleC03, drawC03)
}

func TestC03_Reduced(t *testing.T) {
	sentences := gen.ReducedSentences()
	runEnumerated(t, "C03", "TestC03_Reduced",
		"every sentence of the bounded-exhaustive reduced grammar (see TestC02_Reduced) that Parse accepts, under 4 configs, evaluated on 6 documents: the small one, two hard ones (every JSON type side by side, numbers beyond the float64 range) in both decodings, and one built in Go with values of uncomparable types; every evaluation ends in values or a documented runtime error. Enumerated completely.",
		4*len(sentences), func(i int) *Case {
			cfg := i % 4
			return &Case{Path: sentences[i/4], Funcs: cfg&1 == 1, Accessor: cfg&2 == 2, Strs: []string{"reduced-grammar"}}
		})
}
