package props

import (
	"fmt"
	"reflect"
	"sync"

	"github.com/AsaiYusuke/jsonpath"
	"pgregory.net/rapid"

	"verif/harness/gen"
)

const ruleC04 = "C01 (path, document) pairs with the weight shifted to filters combining == != && || ! over present / missing / '$'-rooted operands, arrays and objects as the filtered container, both decode modes, accessor mode on and off (no Set invoked), with user functions. " +
	"Oracle: a type-exact deep snapshot (dynamic types compared, so json.Number -> float64 or a value -> struct{}{} is a difference) and the slice headers / map identities of every container, taken before the call, equal the document after the call, on success and on failure. " +
	"Non-trivial: the path contains a filter that is evaluated on a non-empty container. Distinct = distinct (path, document, mode, accessor)."

func drawC04(rt *rapid.T) *Case {
	g := gen.NewG(rt, gen.PathOpts{Funcs: true, RootOmit: true, FuncPct: 20, OperandFuncPct: 15, FilterHeavy: true, LongPaths: true})
	p := g.Path()
	r := gen.Render(p, gen.Canon)
	c := &Case{Path: r.Text, AST: p, Doc: g.Doc(p), UseNumber: rapid.Bool().Draw(rt, "usenumber"), Funcs: true, Accessor: gen.Uniform(rt, "accessor", 3) == 0}
	if gen.Uniform(rt, "shared", 5) == 0 {
		c.Ints = []int{1 + int(rapid.Uint32().Draw(rt, "shareseed"))}
	}
	if gen.Uniform(rt, "opaque", 8) == 0 {
		c.Doc = g.Opaquify(c.Doc) // values that are not decoded JSON must not be rewritten either
	}
	return c
}

// header identifies a container's storage.
type header struct {
	ptr      uintptr
	len, cap int
}

// snapshot is a type-exact deep copy plus the storage headers of every container, in
// deterministic traversal order.
type snapshot struct {
	copy    interface{}
	headers []header
}

func takeSnapshot(v interface{}) snapshot {
	var s snapshot
	var walk func(v interface{}) interface{}
	walk = func(v interface{}) interface{} {
		switch t := v.(type) {
		case map[string]interface{}:
			s.headers = append(s.headers, header{reflect.ValueOf(t).Pointer(), len(t), 0})
			m := make(map[string]interface{}, len(t))
			for _, k := range sortedKeys(t) {
				m[k] = walk(t[k])
			}
			return m
		case []interface{}:
			s.headers = append(s.headers, header{reflect.ValueOf(t).Pointer(), len(t), cap(t)})
			a := make([]interface{}, len(t))
			for i := range t {
				a[i] = walk(t[i])
			}
			return a
		}
		return v
	}
	s.copy = walk(v)
	return s
}

func sortedKeys(m map[string]interface{}) []string {
	keys := make([]string, 0, len(m))
	for k := range m {
		keys = append(keys, k)
	}
	sortStrings(keys)
	return keys
}

func sortStrings(a []string) {
	for i := 1; i < len(a); i++ {
		for j := i; j > 0 && a[j] < a[j-1]; j-- {
			a[j], a[j-1] = a[j-1], a[j]
		}
	}
}

// typeExactDiff returns "" if live equals the snapshot copy with identical dynamic types.
func typeExactDiff(live, snap interface{}, at string) string {
	switch s := snap.(type) {
	case map[string]interface{}:
		l, ok := live.(map[string]interface{})
		if !ok {
			return fmt.Sprintf("%s: was an object, now %T", at, live)
		}
		if len(l) != len(s) {
			return fmt.Sprintf("%s: object had %d members, now %d", at, len(s), len(l))
		}
		for _, k := range sortedKeys(s) {
			lv, ok := l[k]
			if !ok {
				return fmt.Sprintf("%s: member %q disappeared", at, k)
			}
			if d := typeExactDiff(lv, s[k], fmt.Sprintf("%s[%q]", at, k)); d != "" {
				return d
			}
		}
		return ""
	case []interface{}:
		l, ok := live.([]interface{})
		if !ok {
			return fmt.Sprintf("%s: was an array, now %T", at, live)
		}
		if len(l) != len(s) {
			return fmt.Sprintf("%s: array had %d elements, now %d", at, len(s), len(l))
		}
		for i := range s {
			if d := typeExactDiff(l[i], s[i], fmt.Sprintf("%s[%d]", at, i)); d != "" {
				return d
			}
		}
		return ""
	}
	if reflect.TypeOf(live) != reflect.TypeOf(snap) {
		return fmt.Sprintf("%s: was %T %v, now %T %v", at, snap, snap, live, live)
	}
	if !deepSame(live, snap) {
		return fmt.Sprintf("%s: was %v, now %v", at, snap, live)
	}
	return ""
}

func (s snapshot) diff(live interface{}) string {
	if d := typeExactDiff(live, s.copy, "$"); d != "" {
		return d
	}
	after := takeSnapshot(live)
	if len(after.headers) != len(s.headers) {
		return "the number of containers changed"
	}
	for i := range s.headers {
		if after.headers[i] != s.headers[i] {
			return fmt.Sprintf("container #%d (pre-order) changed its storage: %+v -> %+v", i, s.headers[i], after.headers[i])
		}
	}
	return ""
}

// filterTouchesMembers: some filter of the path is applied to a non-empty container
// (approximated by: the document has a non-empty container and the path has a filter).
func hasNonEmptyContainer(d *gen.DNode) bool {
	if (d.K == gen.DObj || d.K == gen.DArr) && len(d.Kids) > 0 {
		return true
	}
	return false
}

func checkC04(c *Case, st *Stats) string {
	docText := c.Doc.JSON()
	Journal(c.Check, c.Path, docText, flagString(c))
	doc := c.Document()
	if len(c.Ints) > 0 {
		if c.Ints[0]%2 == 0 {
			doc = gen.ShareSubtrees(doc, uint64(c.Ints[0]))
			st.Class("doc:shared-subtree")
		} else {
			doc = gen.OverlapSlices(doc, uint64(c.Ints[0]))
			st.Class("doc:overlapping-slices")
		}
	}
	snap := takeSnapshot(doc)
	lib := evalLibrary(c, doc, c.Accessor)
	st.Eval(1)
	if lib.parseErr != nil {
		return fmt.Sprintf("generated path was rejected by Parse: %v", lib.parseErr)
	}
	if d := snap.diff(doc); d != "" {
		return fmt.Sprintf("the source document was modified by retrieval (accessor mode %v, outcome %s): %s\n   before %s\n   after  %s", c.Accessor, outcomeOf(lib), d, docText, JSONString(doc))
	}
	// a second evaluation on the same document must see the same document
	lib2 := evalLibrary(c, doc, !c.Accessor)
	st.Eval(1)
	if d := snap.diff(doc); d != "" {
		return fmt.Sprintf("the source document was modified by the second retrieval (accessor mode %v): %s", !c.Accessor, d)
	}
	_ = lib2
	// a caller may hand a result it was given to the library as the next document: that slice is
	// a source document like any other
	for _, r := range []retrieveResult{lib, lib2} {
		if r.err != nil || len(r.got) == 0 {
			continue
		}
		rs := takeSnapshot(r.got)
		for _, q := range []string{"$[-1]", "$[*]", "$[?(@)]", "$..*"} {
			_, _ = jsonpath.Retrieve(q, r.got)
			st.Eval(1)
			if d := rs.diff(r.got); d != "" {
				return fmt.Sprintf("a result slice (%d values) used as the source document of %s was modified by that retrieval: %s", len(r.got), q, d)
			}
		}
		if len(r.got) >= 64 {
			st.Class("result-as-source:>=64 values")
		}
		st.Class("result-as-source")
		if d := snap.diff(doc); d != "" {
			return fmt.Sprintf("the source document was modified when a result of it was used as a source document: %s", d)
		}
	}
	// a function name no Config registers: whatever the library makes of it, the document stays as it is
	if len(c.Path)%3 == 1 && !c.Accessor {
		// half of the time one of the aggregates other JSONPath dialects build in (the first six names)
		name := gen.BuiltinLookingNames[len(docText)%len(gen.BuiltinLookingNames)]
		if len(docText)%2 == 0 {
			name = gen.BuiltinLookingNames[(len(docText)/2)%6]
		}
		cc := *c
		cc.Path, cc.Twin = c.Path+"."+name+"()", ""
		lib3 := evalLibrary(&cc, doc, false)
		if lib3.parseErr != nil {
			st.Class("unregistered-function-name:rejected")
		} else {
			st.Class("unregistered-function-name:accepted")
			st.Eval(1)
		}
		if d := snap.diff(doc); d != "" {
			return fmt.Sprintf("the source document was modified by %s: %s\n   before %s\n   after  %s", cc.Path, d, docText, JSONString(doc))
		}
	}
	if lib.err == nil {
		st.Class("outcome:values")
	} else {
		st.Class("outcome:error")
	}
	if c.Accessor {
		st.Class("mode:accessor-first")
	}
	if c.AST.HasFilter() && hasNonEmptyContainer(c.Doc) {
		st.Class("nontrivial")
		st.NonTrivialCase(c.Path+"\x00"+docText+fmt.Sprint(c.UseNumber, c.Accessor), func() interface{} {
			return map[string]interface{}{"path": c.Path, "doc": docText, "accessor": c.Accessor, "outcome": outcomeOf(lib)}
		})
	}
	return ""
}

// ---- shared-document race scenario (thorough tier; -race build) ----

const ruleC04Race = "under the race detector: 2..4 goroutines evaluate generated filter-heavy paths on ONE shared document while another goroutine only reads it (full traversal); a write that is later undone is invisible to a snapshot but is reported as a data race. Non-trivial: >=2 evaluating goroutines and >=1 path with a filter."

func drawC04Race(rt *rapid.T) *Case {
	g := gen.NewG(rt, gen.PathOpts{Funcs: false, FilterHeavy: true, MaxSteps: 3})
	p := g.Path()
	c := &Case{Path: gen.Render(p, gen.Canon).Text, AST: p, Doc: g.DocFor(p), UseNumber: rapid.Bool().Draw(rt, "usenumber")}
	n := 1 + gen.Uniform(rt, "extra", 3)
	for i := 0; i < n; i++ {
		q := g.Path()
		c.Paths = append(c.Paths, gen.Render(q, gen.Canon).Text)
	}
	c.Ints = []int{10 + gen.Uniform(rt, "iters", 40)}
	return c
}

func readAll(v interface{}) int {
	n := 1
	switch t := v.(type) {
	case map[string]interface{}:
		for _, c := range t {
			n += readAll(c)
		}
	case []interface{}:
		for _, c := range t {
			n += readAll(c)
		}
	}
	return n
}

func checkC04Race(c *Case, st *Stats) string {
	docText := c.Doc.JSON()
	Pending(c)
	doc := c.Document()
	snap := takeSnapshot(doc)
	paths := append([]string{c.Path}, c.Paths...)
	var funcs []func(interface{}) ([]interface{}, error)
	for _, p := range paths {
		f, err := jsonpath.Parse(p)
		if err != nil {
			return fmt.Sprintf("generated path %q was rejected by Parse: %v", p, err)
		}
		funcs = append(funcs, f)
	}
	iters := 20
	if len(c.Ints) > 0 {
		iters = c.Ints[0]
	}
	var wg sync.WaitGroup
	start := make(chan struct{})
	for _, f := range funcs {
		f := f
		wg.Add(1)
		go func() {
			defer wg.Done()
			<-start
			for i := 0; i < iters; i++ {
				_, _ = f(doc)
			}
		}()
	}
	wg.Add(1)
	go func() {
		defer wg.Done()
		<-start
		for i := 0; i < iters; i++ {
			readAll(doc)
		}
	}()
	close(start)
	wg.Wait()
	st.Eval(len(funcs) * iters)
	if d := snap.diff(doc); d != "" {
		return "the shared document was modified: " + d
	}
	if len(funcs) >= 2 {
		st.Class("nontrivial")
		st.NonTrivialCase(fmt.Sprint(paths)+"\x00"+docText, func() interface{} {
			return map[string]interface{}{"paths": paths, "doc": docText, "iterations_per_goroutine": iters}
		})
	}
	return ""
}

func init() {
	Register("TestC04_Snapshot", checkC04)
	Register("TestC04_SharedDocRace", checkC04Race)
	ne := &gen.Query{Kind: gen.QCmp, Op: "!=", A: &gen.Operand{P: &gen.Path{Root: gen.RootAt, Steps: []gen.Step{{Kind: gen.KName, Key: "b"}}}},
		B: &gen.Operand{P: &gen.Path{Root: gen.RootDollar, Steps: []gen.Step{{Kind: gen.KName, Key: "b"}}}}}
	AddSeed("TestC04_Snapshot", &Case{Path: "$[?(@.b != $.b)]", AST: &gen.Path{Steps: []gen.Step{{Kind: gen.KFilter, Q: ne}}},
		Doc: gen.Arr(gen.Obj().Set("a", gen.Num(0)), gen.Obj().Set("a", gen.Num(1))), Funcs: true})
}
