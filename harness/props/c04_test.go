package props

import "testing"

func TestC04_Snapshot(t *testing.T) {
	checkRapid(t, "C04", "TestC04_Snapshot", ruleC04, drawC04)
}

func TestC04_SharedDocRace(t *testing.T) {
	checkRapid(t, "C04", "TestC04_SharedDocRace", ruleC04Race, drawC04Race)
}
