package props

import (
	"fmt"
	"reflect"
	"runtime"

	"github.com/AsaiYusuke/jsonpath"
	"pgregory.net/rapid"

	"verif/harness/gen"
	"verif/harness/spec"
)

const ruleC05 = "stateful: one parsed path (C01 generator, weight on filters with literals and '$'-operands), a pool of 3..5 documents drawn for the same path so that consecutive documents flip the filter verdicts, and a drawn history of <= 8 (thorough <= 16) operations: call(doc i), unrelated Retrieve / Parse with other paths (recycles the pooled buffers), scribble on an earlier result (overwrite + append), force GC (empties sync.Pools). " +
	"Oracle after each call: (result, error) equals a fresh Retrieve of the same path on that document and equals SPEC; invariant after every operation: every earlier result still deep-equals the private copy taken when it was returned (unless the test scribbled on it) and no two live results share a backing array. " +
	"Non-trivial: >=2 calls whose outcomes differ and >=1 call after a failing call. Distinct = distinct (path, documents, history). Since round eleven a history may also re-register every function name on the Config the path was parsed with (operation \"rebind\"); calls after it are compared with SPEC and with a fresh Retrieve on an equal Config."

func drawC05(rt *rapid.T) *Case {
	g := gen.NewG(rt, gen.PathOpts{Funcs: true, FuncPct: 20, FilterHeavy: gen.Uniform(rt, "heavy", 3) > 0, LongPaths: true, RootOmit: true})
	p := g.Path()
	r := gen.Render(p, gen.Canon)
	c := &Case{Path: r.Text, AST: p, UseNumber: rapid.Bool().Draw(rt, "usenumber"), Funcs: true}
	nd := 3 + gen.Uniform(rt, "ndocs", 3)
	for i := 0; i < nd; i++ {
		switch {
		case i > 0 && gen.Uniform(rt, "variant", 3) == 0:
			c.Docs = append(c.Docs, g.Perturb(c.Docs[0]))
		default:
			c.Docs = append(c.Docs, g.DocFor(p))
		}
	}
	if gen.Uniform(rt, "widedoc", 6) == 0 {
		// a wide object / long array where the path looks (pooled buffers and tables have to grow)
		w := g.Wide()
		if len(p.Steps) > 0 && p.Steps[0].Kind == gen.KName && !p.Steps[0].Rec {
			w = gen.Obj().Set(p.Steps[0].Key, w)
		}
		c.Docs[gen.Uniform(rt, "widewhich", len(c.Docs))] = w
	}
	for i := 0; i < 2; i++ {
		q := g.Path()
		c.Paths = append(c.Paths, gen.Render(q, gen.Canon).Text)
	}
	maxOps := 8
	if tierThorough() {
		maxOps = 16
	}
	n := 2 + gen.Uniform(rt, "nops", maxOps-1)
	for i := 0; i < n; i++ {
		switch k := gen.Uniform(rt, "op", 47); {
		case k == 46:
			// the caller registers other functions under the same names on the Config it parsed with
			c.Ops = append(c.Ops, Op{Kind: "rebind"})
		case k >= 44:
			c.Ops = append(c.Ops, Op{Kind: "gc"})
		case k >= 43:
			// somebody evaluates a path with tens of thousands of results
			c.Ops = append(c.Ops, Op{Kind: "bigresult", A: []int{1100, 4500, 9000, 70000}[gen.Uniform(rt, "bigsize", 4)]})
		case k == 39:
			// an unrelated retrieval is given two Configs: the caller's own and another one that binds
			// the same names to other functions
			c.Ops = append(c.Ops, Op{Kind: "twoconfigs", A: gen.Uniform(rt, "other", 2), B: gen.Uniform(rt, "doc", nd)})
		case k >= 42:
			// a user function panics in the middle of a call; the caller recovers and carries on
			c.Ops = append(c.Ops, Op{Kind: "paniccall", A: gen.Uniform(rt, "doc", nd)})
		case k >= 40:
			// a Parse that is rejected half-way
			c.Ops = append(c.Ops, Op{Kind: "poison", A: gen.Uniform(rt, "poisonpath", len(poisonPaths))})
		case k < 26:
			c.Ops = append(c.Ops, Op{Kind: "call", A: gen.Uniform(rt, "doc", nd)})
		case k < 30:
			c.Ops = append(c.Ops, Op{Kind: "retrieve", A: gen.Uniform(rt, "other", 2), B: gen.Uniform(rt, "doc", nd)})
		case k < 34:
			c.Ops = append(c.Ops, Op{Kind: "parse", A: gen.Uniform(rt, "other", 2)})
		case k < 37:
			c.Ops = append(c.Ops, Op{Kind: "scribble", A: int(rapid.Uint32().Draw(rt, "which") % 1000)})
		case k < 38:
			// the caller renames a member of a document in place between two calls
			c.Ops = append(c.Ops, Op{Kind: "rename", A: gen.Uniform(rt, "doc", nd)})
		case k < 39:
			// the caller gives document A the content of document B, keeping A's root container
			c.Ops = append(c.Ops, Op{Kind: "transplant", A: gen.Uniform(rt, "doc", nd), B: gen.Uniform(rt, "src", nd)})
		default:
			c.Ops = append(c.Ops, Op{Kind: "gc"})
		}
	}
	return c
}

func sameOutcome(gotA []interface{}, errA error, gotB []interface{}, errB error) bool {
	if (errA == nil) != (errB == nil) {
		return false
	}
	if errA != nil {
		return reflect.TypeOf(errA) == reflect.TypeOf(errB) && errA.Error() == errB.Error()
	}
	return reflect.DeepEqual(gotA, gotB)
}

func checkC05(c *Case, st *Stats) string {
	Journal(c.Check, c.Path, "", flagString(c))
	rec := &Recorder{}
	mainCfg := BuildConfig(rec, true, false) // the caller's Config object: used for Parse and for every fresh Retrieve below
	freshCfg := mainCfg                      // what a fresh Retrieve is given (the same Config until a "rebind" operation)
	f, err := jsonpath.Parse(c.Path, mainCfg)
	if err != nil {
		return fmt.Sprintf("generated path was rejected by Parse: %v", err)
	}
	docs := make([]interface{}, len(c.Docs))
	cur := make([]*gen.DNode, len(c.Docs)) // current content of each document (the caller may edit it in place)
	for i, d := range c.Docs {
		docs[i] = d.Build(c.UseNumber)
		cur[i] = d
	}
	// a user function may itself call the parsed function (on another document) while the
	// outer call is in progress: the outer call must be unaffected
	reentries := 0
	rec.Reenter = func() {
		reentries++
		_, _ = f(docs[reentries%len(docs)])
	}
	type kept struct {
		live      []interface{}
		copy      []interface{}
		scribbled bool
	}
	var results []*kept
	outcomes := map[string]bool{}
	prevFailed, afterFailure, triple := false, false, false
	hist := ""
	calls := 0
	invariant := func(step int, op Op) string {
		seen := map[*interface{}]int{}
		for k, r := range results {
			if r.scribbled {
				continue
			}
			if !reflect.DeepEqual(r.live, r.copy) {
				return fmt.Sprintf("after operation %d (%s): the result returned by call #%d changed from %s to %s", step, op.Kind, k, JSONString(r.copy), JSONString(r.live))
			}
			if len(r.live) > 0 {
				if other, dup := seen[&r.live[0]]; dup {
					return fmt.Sprintf("after operation %d: results #%d and #%d share a backing array", step, other, k)
				}
				seen[&r.live[0]] = k
			}
		}
		return ""
	}
	for step, op := range c.Ops {
		switch op.Kind {
		case "call":
			i := op.A % len(docs)
			got, gerr := f(docs[i])
			st.Eval(1)
			calls++
			logged, errs := len(rec.Calls), rec.Errs
			fresh, ferr := jsonpath.Retrieve(c.Path, docs[i], freshCfg)
			rec.Calls, rec.Errs = rec.Calls[:logged], errs
			if !sameOutcome(got, gerr, fresh, ferr) {
				return fmt.Sprintf("operation %d: call on document %d (%s) returned (%s, %v) but a fresh Retrieve returns (%s, %v); history so far: %s", step, i, cur[i].JSON(), JSONString(got), gerr, JSONString(fresh), ferr, hist)
			}
			res := spec.Eval(c.AST, cur[i].Build(c.UseNumber), gen.PureFuncs{})
			if !res.Unspecified {
				if (len(res.Nodes) == 0) != (gerr != nil) || (gerr == nil && !reflect.DeepEqual(got, res.Values())) {
					return fmt.Sprintf("operation %d: call on document %d returned (%s, %v), SPEC selects %s", step, i, JSONString(got), gerr, JSONString(res.Values()))
				}
			}
			if gerr == nil {
				cp := make([]interface{}, len(got))
				for k := range got {
					cp[k] = gen.DeepCopy(got[k])
				}
				results = append(results, &kept{live: got, copy: cp})
				outcomes["v:"+JSONString(got)] = true
				if prevFailed {
					afterFailure = true
					triple = triple || len(outcomes) >= 2
				}
				prevFailed = false
			} else {
				outcomes["e:"+gerr.Error()] = true
				if prevFailed || len(results) > 0 {
					afterFailure = afterFailure || prevFailed
				}
				prevFailed = true
			}
			hist += fmt.Sprintf("call(%d)->%v ", i, gerr == nil)
		case "retrieve":
			_, _ = jsonpath.Retrieve(c.Paths[op.A%len(c.Paths)], docs[op.B%len(docs)], BuildConfig(nil, true, false))
			hist += "retrieve "
		case "parse":
			_, _ = jsonpath.Parse(c.Paths[op.A%len(c.Paths)], BuildConfig(nil, true, false))
			hist += "parse "
		case "scribble":
			if len(results) > 0 {
				r := results[op.A%len(results)]
				for k := range r.live {
					r.live[k] = "SCRIBBLE"
				}
				r.live = append(r.live, "APPENDED")
				r.scribbled = true
				hist += "scribble "
			}
		case "rename":
			i := op.A % len(docs)
			if nd, path := widestObject(cur[i]); nd != nil {
				cur[i] = cur[i].Clone()
				target, _ := widestObject(cur[i])
				oldKey := target.Keys[0]
				newKey := fmt.Sprintf("%s~r%d", oldKey, step)
				target.Keys[0] = newKey
				if m, ok := liveAt(docs[i], path).(map[string]interface{}); ok {
					v := m[oldKey]
					delete(m, oldKey)
					m[newKey] = v
					hist += fmt.Sprintf("rename(doc %d: %q->%q) ", i, oldKey, newKey)
				}
				// results returned earlier for this document may legitimately alias its containers
				for _, r := range results {
					r.scribbled = true
				}
			}
		case "transplant":
			i, j := op.A%len(docs), op.B%len(docs)
			if i != j && transplantInPlace(docs[i], cur[j].Build(c.UseNumber)) {
				cur[i] = cur[j]
				hist += fmt.Sprintf("transplant(doc %d := content of doc %d) ", i, j)
				st.Class("transplanted-in-place")
				for _, r := range results {
					r.scribbled = true
				}
			}
		case "rebind":
			// Parse bound the names to the functions the Config held then; what the caller registers
			// under those names afterwards, on that very Config object, is for later Parse calls only.
			// The fresh Retrieve a call is compared with gets an equal Config of its own from here on.
			freshCfg = BuildConfig(rec, true, false)
			for _, name := range gen.FilterNames {
				mainCfg.SetFilterFunction(name, func(v interface{}) (interface{}, error) { return "REGISTERED-AFTER-PARSE", nil })
			}
			for _, name := range gen.AggNames {
				mainCfg.SetAggregateFunction(name, func(vs []interface{}) (interface{}, error) { return "REGISTERED-AFTER-PARSE", nil })
			}
			st.Class("functions-re-registered-on-the-config-after-parse")
			hist += "re-register-functions "
		case "twoconfigs":
			var other jsonpath.Config
			for _, name := range gen.FilterNames {
				other.SetFilterFunction(name, func(v interface{}) (interface{}, error) { return "FROM-THE-OTHER-CONFIG", nil })
			}
			for _, name := range gen.AggNames {
				other.SetAggregateFunction(name, func(vs []interface{}) (interface{}, error) { return "FROM-THE-OTHER-CONFIG", nil })
			}
			other.SetFilterFunction("only-in-other", func(v interface{}) (interface{}, error) { return v, nil })
			logged, errs := len(rec.Calls), rec.Errs
			_, _ = jsonpath.Retrieve(c.Paths[op.A%len(c.Paths)], docs[op.B%len(docs)], mainCfg, other)
			rec.Calls, rec.Errs = rec.Calls[:logged], errs
			st.Class("unrelated-call-with-two-configs")
			hist += "retrieve-with-two-configs "
		case "poison":
			pp := poisonPaths[op.A%len(poisonPaths)]
			_, _ = jsonpath.Parse(pp, BuildConfig(nil, true, false))
			noteParse(pp, true, false)
			hist += "rejected-parse "
		case "paniccall":
			i := op.A % len(docs)
			rec.PanicNext = 1 + len(hist)%3
			func() {
				defer func() {
					if r := recover(); r != nil {
						if _, ours := r.(UserPanic); !ours {
							panic(r)
						}
						st.Class("user-function-panicked")
						hist += "call-with-panicking-function "
					}
				}()
				_, _ = f(docs[i])
			}()
			rec.PanicNext = 0
		case "bigresult":
			big := bigArray(op.A / 10)
			if got, err := jsonpath.Retrieve("$[*,*,*,*,*,*,*,*,*,*]", big); err != nil || len(got) != len(big)*10 {
				return fmt.Sprintf("operation %d: $[*,*,*,*,*,*,*,*,*,*] on an array of %d numbers returned %d values, %v", step, len(big), len(got), err)
			}
			st.Class("big-result-in-between")
			hist += fmt.Sprintf("retrieve-%d-values ", len(big)*10)
		case "gc":
			runtime.GC()
			hist += "gc "
		}
		if msg := invariant(step, op); msg != "" {
			return msg + "; history: " + hist
		}
	}
	st.ClassN("calls", calls)
	st.ClassN("re-entrant-calls", reentries)
	if triple {
		st.Class("history:success-failure-success")
	}
	if len(outcomes) >= 2 && afterFailure {
		st.Class("nontrivial")
		key := c.Path + fmt.Sprint(c.UseNumber, c.Ops)
		for _, d := range c.Docs {
			key += "\x00" + d.JSON()
		}
		st.NonTrivialCase(key, func() interface{} {
			ds := []string{}
			for _, d := range c.Docs {
				ds = append(ds, d.JSON())
			}
			return map[string]interface{}{"path": c.Path, "docs": ds, "history": hist, "distinct_outcomes": len(outcomes)}
		})
	}
	return ""
}

func bigArray(n int) []interface{} {
	a := make([]interface{}, n)
	for i := range a {
		a[i] = float64(i)
	}
	return a
}

func tierThorough() bool { return envTier() == "thorough" }

// widestObject returns the object node with most members (first in pre-order on ties) and its
// location.
func widestObject(d *gen.DNode) (*gen.DNode, []interface{}) {
	var best *gen.DNode
	var bestPath []interface{}
	var walk func(n *gen.DNode, path []interface{})
	walk = func(n *gen.DNode, path []interface{}) {
		if n.K == gen.DObj && len(n.Keys) > 0 && (best == nil || len(n.Keys) > len(best.Keys)) {
			best, bestPath = n, append([]interface{}{}, path...)
		}
		for i, k := range n.Kids {
			if n.K == gen.DObj {
				walk(k, append(path, n.Keys[i]))
			} else {
				walk(k, append(path, i))
			}
		}
	}
	walk(d, nil)
	return best, bestPath
}

func liveAt(doc interface{}, path []interface{}) interface{} {
	v, _ := getAt(doc, path)
	return v
}

func init() {
	Register("TestC05_History", checkC05)
	eq := &gen.Query{Kind: gen.QCmp, Op: "==", A: &gen.Operand{P: &gen.Path{Root: gen.RootDollar, Steps: []gen.Step{{Kind: gen.KName, Key: "a"}}}}, B: &gen.Operand{IsLit: true, LK: gen.LNum, Num: "1"}}
	mk := func(a float64) *gen.DNode {
		return gen.Obj().Set("a", gen.Num(a)).Set("list", gen.Arr(gen.Num(10), gen.Num(20)))
	}
	AddSeed("TestC05_History", &Case{Path: "$.list[?($.a == 1)]", Funcs: true,
		AST:  &gen.Path{Steps: []gen.Step{{Kind: gen.KName, Key: "list"}, {Kind: gen.KFilter, Q: eq}}},
		Docs: []*gen.DNode{mk(1), mk(2)}, Paths: []string{"$.a"},
		Ops: []Op{{Kind: "call", A: 0}, {Kind: "call", A: 1}, {Kind: "call", A: 0}, {Kind: "gc"}, {Kind: "call", A: 0}}})
}
