package props

import "testing"

func TestC05_History(t *testing.T) {
	checkRapid(t, "C05", "TestC05_History", ruleC05, drawC05)
}
