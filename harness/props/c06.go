package props

import (
	"fmt"
	"reflect"
	"strings"
	"sync"

	"github.com/AsaiYusuke/jsonpath"
	"pgregory.net/rapid"

	"verif/harness/gen"
	"verif/harness/pegi"
	"verif/harness/spec"
)

const ruleC06 = "scenarios drawn by rapid and executed under the race detector (shards run with GOMAXPROCS 2/4/16): a corpus of ~170 paths covering every node and comparator kind (accepted sentences of the reduced grammar + generated filter-heavy paths), 9 shared read-only documents, 3 configs (no Config argument at all / functions / functions + accessor mode); 2..16 goroutines, each running a derived program of 20..200 operations: Parse(path, config) then call (one operation in three writes the path in a spelling this process has not parsed before); call a SHARED pre-parsed function on a shared document; Retrieve. No synchronisation between workers after the start barrier. " +
	"Oracle: (1) the race detector (halt_on_error); (2) every operation's (result, error) equals the value computed for the same operation alone, sequentially, before the goroutines start; (3) the shared documents equal their snapshots afterwards. " +
	"Non-trivial: >=2 goroutines call the same shared parsed function that contains a filter, and >=2 goroutines are inside Parse during the run. Distinct = distinct scenario."

var c06Docs = []string{
	`{"a":1,"b":{"a":2,"c":[1,2,3]},"c":[{"a":1,"b":2},{"a":2},{"b":{"a":[3]}}],"d":"x"}`,
	`[{"a":1,"b":2},{"a":2,"b":1},{"a":"x"},{"b":null},[1,2,[3,4]],"s",1.5,true,null]`,
	`{"a":[1,2,3],"b":[{"a":[{"a":1}]}],"f":{"g":{"a":{"a":1}}}}`,
	`{"a":{"a":{"a":{"a":1}}},"b":[[[1]]]}`,
	`[]`,
	`{"list":[{"id":1,"v":1},{"id":2,"v":"1"},{"id":3},{"id":4,"v":[1]}],"x":1,"y":"a"}`,
	`{"list":[{"id":5,"v":2},{"id":6,"v":1},{"id":7,"v":"a"}],"x":2,"y":"b","a":3,"d":"y"}`,
	longArrayDoc(150),
	longArrayDoc(90),
}

func longArrayDoc(n int) string {
	var sb strings.Builder
	sb.WriteString("[")
	for i := 0; i < n; i++ {
		if i > 0 {
			sb.WriteString(",")
		}
		fmt.Fprintf(&sb, `{"a":%d,"b":%d}`, i, i%7)
	}
	sb.WriteString("]")
	return sb.String()
}

var c06Once sync.Once
var c06Corpus []string
var c06ASTs []*gen.Path        // the corpus paths converted by PEGI + tree2ast (nil when not convertible)
var c06Variant = map[int]int{} // per corpus path: how many fresh spellings were handed out in this process
var c06Plain []bool            // the corpus path parses without any Config (it uses no function)

func c06Paths() []string {
	c06Once.Do(func() {
		cfg := BuildConfig(nil, true, false)
		seen := map[string]bool{}
		add := func(p string) {
			if seen[p] {
				return
			}
			if _, err := jsonpath.Parse(p, cfg); err == nil {
				seen[p] = true
				c06Corpus = append(c06Corpus, p)
				var ast *gen.Path
				if g, gerr := theGrammar(); gerr == nil {
					if v := g.Parse(p); v.Accepted {
						ast, _ = pegi.ToAST(v.Tree, v.Runes, pegi.CatalogueFuncs)
					}
				}
				c06ASTs = append(c06ASTs, ast)
				// decided from the AST, not by asking the library: nothing is parsed without a Config
				// before the concurrent phase
				c06Plain = append(c06Plain, ast != nil && !ast.HasFunc())
			}
		}
		sentences := gen.ReducedSentences()
		// every step form alone and in pairs with a filter; every operator x a few operand forms
		for i, s := range sentences {
			if i%97 == 0 || (len(s) < 14 && i%11 == 0) {
				add(s)
			}
		}
		for _, s := range []string{
			"$", "$.a", "$..a", "$.*", "$[*]", "$..*", "$['a','b']", "$[*,*]", "$[0]", "$[-1]", "$[0:2]", "$[::-1]", "$[0,1]", "$[0,1:3,*]",
			"$[?(@.a)]", "$[?(!@.a)]", "$[?(@.a == 1)]", "$[?(@.a != 1)]", "$[?(@.a < 2)]", "$[?(@.a <= 2)]", "$[?(@.a > 1)]", "$[?(@.a >= 1)]", "$[?(@.a =~ /x/)]",
			"$[?(1 == 2)]", "$[?(1 == 1)]", "$[?(1 < 2)]", "$[?($.a == 1)]", "$[?($.d == 'x')]", "$[?(@.a == $.a)]", "$[?(@.b != $.b)]", "$[?(@.a == 1 && @.b == 2)]", "$[?(@.a == 1 || @.b == 1)]",
			"$[?(@.a == 'x' || !@.b)]", "$.c[?(@.a == 1)].b", "$..[?(@.a)]", "$..[?(@.a == 1)]", "$.list[?(@.v == 1)].id", "$.list[?(@.v == $.x)]", "$.list[?(@.v == '1')]", "$.list[?(@.v)]", "$.list[?(!@.v)].id",
			"$.a.f1()", "$.*.f1()", "$.a.g1()", "$.*.g2()", "$[?(@.a.f2() == 2)]", "$[?(@.*.g1() > 1)]", "$.c[*].a.f2().f1()", "$..a.g1()", "$.b.c[?(@ > 1)]", "$.b.c[?(@ == 2 || @ == 3)]",
			"$[*,0]", "$[1,*]", "$[*,*]", "$[*,0].a", "$[0,*,-1].b", "$[?(@.a > 100)].b", "$[-3:].a", "$[::-20].a", "$[?(@.b == $[3].b)].a", "$.list[?(@.v == $.x)].id", "$.list[?(@.v != $.x)].id", "$..[?(@.v == $.x)]", "$[?($.a == 3)]", "$[?($.d == 'y')]",
			// the bare current node as an existence test under a logical operator, on arrays
			"$[?(@ && @.a)]", "$[?(@ || @.b)]", "$[?(!@)]", "$[?(@ && @ != null)].a", "$.c[?(@ && @.b)]", "$.list[?(@ || @.v == 1)].id", "$[4][?(!@ || @ > 1)]",
			// "fre": a shared parsed function whose user function calls that very parsed function again
			"$[*].fre()", "$..a.fre()", "$.c[?(@.a.fre() == 1)]", "$.b.c[*].fre().f1()",
			// functions that themselves call the library; literal on the left of an ordering comparison with a root path
			"$.b.fnest()", "$.c[*].fnest()", "$[*].fnest()", "$.f.g.fnest()", "$.a.gnest()", "$.list[*].id.gnest()", "$[?(@.a.fnest())]", "$.c[?(@.b.fnest() == 3)]",
			"$.list[?(1 < $.x)]", "$.list[?(2 > $.x)].id", "$.list[?(1 <= $.x)]", "$[?(3 >= $.a)]", "$.list[?(1 < $.x && @.v)]",
			// logical operators one side of which is decided for the whole container at once
			"$[?(@.a && $.d)]", "$[?(@.a == 1 && $.a == 3)]", "$[?($.x == 1 && @.v)]", "$.list[?(@.v == 1 && $.x == 1)]", "$.list[?(@.v == 1 && $.x == 2)]", "$.list[?(@.v || $.y == 'a')]", "$.list[?($.y == 'b' || @.v == 2)]",
			"$[?(@.b && 1 == 2)]", "$[?(1 == 1 && @.a)]", "$[?(@.a || 1 == 2)]", "$[?(@.a == 1 && $.zz)]", "$[?(!$.zz && @.b)]", "$.c[?(@.a && $.d == 'x')].b", "$.c[?(@.b && $.d == 'y')].a",
			"$[?(@ == null)]", "$[?(@ == true)]", "$[?(@ == 's')]", "$[?(@ =~ /^s$/)]", "$[?(@[0] == 1)]", "$[?(@.b.a)]", "$[4][2][0]", "$[4][0:2]", "$..[0]", "$..['a','c']", "$..[*]",
		} {
			add(s)
		}
	})
	return c06Corpus
}

func drawC06(rt *rapid.T) *Case {
	c := &Case{}
	ng := 2 + gen.Uniform(rt, "goroutines", 15)
	nops := 20 + gen.Uniform(rt, "ops", 181)
	nshared := 2 + gen.Uniform(rt, "shared", 7)
	c.Ints = []int{ng, nops, nshared, int(rapid.Uint32().Draw(rt, "programseed"))}
	c.Path = fmt.Sprintf("scenario: %d goroutines x %d operations, %d shared parsed functions", ng, nops, nshared)
	if k := gen.Uniform(rt, "focused", 6); k == 2 {
		// churn: every goroutine calls the shared parsed functions in a tight loop (ten times the
		// operations, no parsing in between) on the short documents
		c.Ints = append(c.Ints, 10)
		c.Path += ", churn"
	} else if k < 2 {
		// every goroutine works on the same one to three paths (with every Config, through Parse and
		// Retrieve, on short documents): calls for one path text overlap all the time
		focus := 1 + gen.Uniform(rt, "focuspaths", 3)
		c.Ints = append(c.Ints, focus)
		c.Path += fmt.Sprintf(", focused on %d paths", focus)
	}
	return c
}

type c06Op struct {
	kind int    // 0: Parse+call, 1: shared function call, 2: Retrieve, 3: a retrieval in which a user function panics
	text string // the path as written for this operation (kinds 0 and 2)
	path int
	cfg  int
	doc  int
	fn   int
}

// c06Configs are the Config values of one scenario, built once and used by every goroutine, as a
// program would: [1] the functions, [2] a copy of [1] with accessor mode set on the copy (the two
// share their function tables), [3] accessor mode and no function at all. [0] stands for "no
// Config argument".
type c06Configs [4]jsonpath.Config

func newC06Configs() *c06Configs {
	var cs c06Configs
	cs[1] = BuildConfig(nil, true, false)
	cs[2] = cs[1]
	cs[2].SetAccessorMode()
	cs[3].SetAccessorMode()
	return &cs
}

func (cs *c06Configs) get(k int) (jsonpath.Config, bool) {
	k %= 4
	return cs[k], k != 0
}

// spread returns the Config of kind k as a sub-slice of the scenario's one Config list (what a
// program does that keeps its Configs in a slice): list[k-1:k], and for "no Config" the empty
// prefix list[:0] - which still has the whole list behind it as spare capacity.
func (cs *c06Configs) spread(list []jsonpath.Config, k int) []jsonpath.Config {
	k %= 4
	if k == 0 {
		return list[:0]
	}
	return list[k-1 : k]
}

func c06Accessor(k int) bool { return k%4 >= 2 }

func c06Outcome(got []interface{}, err error) string {
	if err != nil {
		return reflect.TypeOf(err).Name() + ": " + err.Error()
	}
	return JSONString(got)
}

func checkC06(c *Case, st *Stats) string {
	Pending(c)
	paths := c06Paths()
	if len(paths) < 100 {
		return fmt.Sprintf("harness: the concurrency corpus has only %d paths", len(paths))
	}
	ng, nops, nshared, seed := c.Ints[0], c.Ints[1], c.Ints[2], uint64(c.Ints[3])*2654435761+12345
	next := func(n int) int {
		seed = seed*6364136223846793005 + 1442695040888963407
		return int((seed >> 33) % uint64(n))
	}
	docs := make([]interface{}, len(c06Docs))
	snaps := make([]snapshot, len(c06Docs))
	for i, d := range c06Docs {
		docs[i] = gen.MustDecode(d, i%2 == 1)
		snaps[i] = takeSnapshot(docs[i])
	}
	cfgs := newC06Configs()
	cfgList := []jsonpath.Config{cfgs[1], cfgs[2], cfgs[3]}
	// shared pre-parsed functions (funcs need a config; paths without functions parse under any)
	type sharedFn struct {
		path, cfg int
		f         func(interface{}) ([]interface{}, error)
	}
	var shared []sharedFn
	for i := 0; i < nshared; i++ {
		p, k := next(len(paths)), 1+next(2)
		cfg, _ := cfgs.get(k)
		var f func(interface{}) ([]interface{}, error)
		if strings.Contains(paths[p], ".fre()") {
			// the function re-enters f (on a one-element document whose value tells it to stop there):
			// no state is shared between the goroutines for this, the recursion ends by the value
			own := BuildConfig(nil, true, c06Accessor(k))
			own.SetFilterFunction("fre", func(v interface{}) (interface{}, error) {
				if f != nil && !onlyReentryMarkers(v) {
					_, _ = f([]interface{}{"re-entered", map[string]interface{}{"a": "re-entered"}})
				}
				return v, nil
			})
			cfg = own
		}
		var err error
		f, err = jsonpath.Parse(paths[p], cfg)
		if err != nil {
			return fmt.Sprintf("harness: corpus path %q does not parse: %v", paths[p], err)
		}
		shared = append(shared, sharedFn{p, k, f})
	}
	// programs
	var focus []int
	churn := false
	if len(c.Ints) >= 5 && c.Ints[4] == 10 {
		churn = true
		nops *= 10
		st.Class("churn-on-shared-functions")
	} else if len(c.Ints) >= 5 {
		for i := 0; i < c.Ints[4]; i++ {
			focus = append(focus, next(len(paths)))
		}
		st.Class("focused-on-few-paths")
	}
	programs := make([][]c06Op, ng)
	for g := range programs {
		for i := 0; i < nops; i++ {
			op := c06Op{kind: next(3), path: next(len(paths)), cfg: next(4), doc: next(len(docs)), fn: next(len(shared))}
			if churn {
				op.kind = 1
				op.doc = next(7)
			} else if next(40) == 0 {
				op.kind = 3
			}
			if len(focus) > 0 {
				op.path = focus[next(len(focus))]
				if op.kind == 1 && next(2) == 0 {
					op.kind = next(2) * 2 // more parsing than in the general scenarios
				}
				if next(4) > 0 {
					op.doc = next(7) // the short documents
				}
			}
			if (op.cfg == 0 || op.cfg == 3) && !c06Plain[op.path] {
				op.cfg = 1 + next(2) // only paths without functions can be parsed with no Config / a function-less Config
			}
			op.text = paths[op.path]
			if next(3) == 0 {
				// a spelling of the path this process has not parsed before (blanks around a path are
				// insignificant): a program parses new paths all the time, so whatever the library keeps
				// per path string is met cold, during the concurrent phase
				n := c06Variant[op.path]
				c06Variant[op.path]++
				op.text = strings.Repeat(" ", 1+n%41) + op.text + strings.Repeat(" ", (n/41)%41)
			}
			programs[g] = append(programs[g], op)
		}
	}
	// Expectations come from SPEC, computed before any goroutine starts and WITHOUT evaluating
	// anything with the library: the concurrent phase must meet the library's evaluation state
	// (parsed trees, pools, any package-level table) cold, because state that is built on first
	// use races only then. "What the call returns when run alone" is SPEC's answer (C01); the
	// same operations are also run alone with the library after the concurrent phase.
	summarize := func(got []interface{}, err error) string {
		if err != nil {
			if !DescribeErr(err).IsRuntime() {
				return "UNDOCUMENTED " + err.Error()
			}
			return "ERR"
		}
		plain := make([]interface{}, len(got))
		for i, v := range got {
			if a, ok := v.(jsonpath.Accessor); ok {
				plain[i] = a.Get()
			} else {
				plain[i] = v
			}
		}
		return JSONString(plain)
	}
	run := func(op c06Op) ([]interface{}, error) {
		switch op.kind {
		case 3:
			// a user function panics in the middle of this goroutine's evaluation; the goroutine recovers
			// and carries on (its later calls, and everybody else's, must be unaffected)
			rec := &Recorder{PanicNext: 1 + op.fn%3}
			func() {
				defer func() {
					if r := recover(); r != nil {
						if _, ours := r.(UserPanic); !ours {
							panic(r)
						}
					}
				}()
				_, _ = jsonpath.Retrieve([]string{"$[*].f1()", "$..a.f1()", "$[?(@.a.f1())]", "$.*.f4().f1()", "$..*.g1()"}[op.cfg%5], docs[op.doc], BuildConfig(rec, true, false))
			}()
			return nil, nil
		case 1:
			return shared[op.fn].f(docs[op.doc])
		case 0:
			var f func(interface{}) ([]interface{}, error)
			var err error
			if (op.doc+op.path)%3 == 0 {
				f, err = jsonpath.Parse(op.text, cfgs.spread(cfgList, op.cfg)...) // a sub-slice of the shared Config list
			} else if cfg, ok := cfgs.get(op.cfg); ok {
				f, err = jsonpath.Parse(op.text, cfg)
			} else {
				f, err = jsonpath.Parse(op.text) // no Config argument at all
			}
			if err != nil {
				return nil, err
			}
			return f(docs[op.doc])
		}
		if (op.doc+op.path)%3 == 0 {
			return jsonpath.Retrieve(op.text, docs[op.doc], cfgs.spread(cfgList, op.cfg)...)
		}
		if cfg, ok := cfgs.get(op.cfg); ok {
			return jsonpath.Retrieve(op.text, docs[op.doc], cfg)
		}
		return jsonpath.Retrieve(op.text, docs[op.doc])
	}
	pathOf := func(op c06Op) int {
		if op.kind == 1 {
			return shared[op.fn].path
		}
		return op.path
	}
	key := func(op c06Op) [3]int {
		if op.kind == 1 {
			return [3]int{-1 - op.fn, 0, op.doc}
		}
		return [3]int{op.path, op.cfg, op.doc}
	}
	expect := map[[3]int]string{}
	for _, prog := range programs {
		for _, op := range prog {
			if op.kind == 3 {
				continue
			}
			k := key(op)
			if _, ok := expect[k]; ok {
				continue
			}
			expect[k] = "" // not comparable with SPEC
			if ast := c06ASTs[pathOf(op)]; ast != nil {
				res := spec.Eval(ast, docs[op.doc], gen.PureFuncs{})
				switch {
				case res.Unspecified:
				case len(res.Nodes) == 0:
					expect[k] = "ERR"
				default:
					expect[k] = JSONString(res.Values())
				}
			}
		}
	}
	// concurrent run
	mismatches := make([]string, ng)
	concurrent := make([]map[[3]int]string, ng)
	var wg sync.WaitGroup
	start := make(chan struct{})
	for g := range programs {
		g := g
		wg.Add(1)
		go func() {
			defer wg.Done()
			<-start
			seen := map[[3]int]string{}
			// the caller owns what it was given: it appends to earlier results while later ones are
			// alive (its own and those of the other goroutines)
			type heldResult struct {
				res  []interface{}
				n    int
				full string
			}
			var held []heldResult
			for i, op := range programs[g] {
				got, err := run(op)
				if op.kind == 3 {
					continue
				}
				sum := summarize(got, err)
				full := c06Outcome(got, err)
				k := key(op)
				if err == nil && len(got) > 0 {
					if len(held) > 0 {
						h := &held[i%len(held)]
						h.res = append(h.res, "APPENDED-BY-CALLER")
					}
					held = append(held, heldResult{got, len(got), full})
					if len(held) > 4 {
						held = held[1:]
					}
					for _, h := range held {
						if now := c06Outcome(h.res[:h.n], nil); now != h.full && mismatches[g] == "" {
							mismatches[g] = fmt.Sprintf("goroutine %d operation %d: a result returned earlier (%s) changed to %s after callers appended to other results", g, i, h.full, now)
						}
					}
				}
				if err == nil && mismatches[g] == "" {
					// the Config of THIS call decides whether the results are Accessors
					wantAcc := (op.kind != 1 && c06Accessor(op.cfg)) || (op.kind == 1 && c06Accessor(shared[op.fn].cfg))
					for j, v := range got {
						if _, isAcc := v.(jsonpath.Accessor); isAcc != wantAcc {
							mismatches[g] = fmt.Sprintf("goroutine %d operation %d (kind %d, path %q, config %d, document %d): result %d is %T although accessor mode of this call's Config is %v", g, i, op.kind, op.text, op.cfg, op.doc, j, v, wantAcc)
							break
						}
					}
				}
				if want := expect[k]; want != "" && sum != want && mismatches[g] == "" {
					mismatches[g] = fmt.Sprintf("goroutine %d operation %d (kind %d, path %q, config %d, document %d): concurrent result %s, alone (SPEC) %s", g, i, op.kind, paths[pathOf(op)], op.cfg, op.doc, sum, want)
				}
				if prev, ok := seen[k]; ok && prev != full && mismatches[g] == "" {
					mismatches[g] = fmt.Sprintf("goroutine %d operation %d (path %q, document %d): two evaluations of the same call differ: %s vs %s", g, i, paths[pathOf(op)], op.doc, prev, full)
				}
				seen[k] = full
			}
			concurrent[g] = seen
		}()
	}
	close(start)
	wg.Wait()
	st.Eval(ng * nops)
	for _, m := range mismatches {
		if m != "" {
			return m
		}
	}
	for i := range docs {
		if d := snaps[i].diff(docs[i]); d != "" {
			return fmt.Sprintf("shared document %d was modified: %s", i, d)
		}
	}
	// the same calls, alone, afterwards: same (result, error text) as during the concurrent phase
	alone := map[[3]int]string{}
	for g, prog := range programs {
		for _, op := range prog {
			if op.kind == 3 {
				continue
			}
			k := key(op)
			if _, ok := alone[k]; !ok {
				got, err := run(op)
				alone[k] = c06Outcome(got, err)
			}
			if c, ok := concurrent[g][k]; ok && c != alone[k] {
				return fmt.Sprintf("path %q on document %d: concurrent outcome %s, alone afterwards %s", paths[pathOf(op)], op.doc, c, alone[k])
			}
		}
	}
	// non-triviality
	callers := map[int]map[int]bool{}
	parsers := map[int]bool{}
	for g, prog := range programs {
		for _, op := range prog {
			if op.kind == 1 {
				if callers[op.fn] == nil {
					callers[op.fn] = map[int]bool{}
				}
				callers[op.fn][g] = true
			} else {
				parsers[g] = true
			}
		}
	}
	sharedFilter := false
	for fn, gs := range callers {
		if len(gs) >= 2 && containsFilter(paths[shared[fn].path]) {
			sharedFilter = true
		}
	}
	st.Class(fmt.Sprintf("goroutines:%s", bucket(ng)))
	if sharedFilter && len(parsers) >= 2 {
		st.Class("nontrivial")
		st.NonTrivialCase(fmt.Sprint(c.Ints), func() interface{} {
			sp := []string{}
			for _, s := range shared {
				sp = append(sp, paths[s.path])
			}
			return map[string]interface{}{"goroutines": ng, "operations_each": nops, "shared_functions": sp, "corpus_paths": len(paths)}
		})
	}
	return ""
}

// onlyReentryMarkers reports whether v belongs to the document handed to a re-entrant call (the
// marker string, or containers holding nothing else): the recursion ends there.
func onlyReentryMarkers(v interface{}) bool {
	switch t := v.(type) {
	case string:
		return t == "re-entered"
	case []interface{}:
		for _, c := range t {
			if !onlyReentryMarkers(c) {
				return false
			}
		}
		return true
	case map[string]interface{}:
		for _, c := range t {
			if !onlyReentryMarkers(c) {
				return false
			}
		}
		return true
	}
	return false
}

func containsFilter(p string) bool {
	for i := 0; i+1 < len(p); i++ {
		if p[i] == '?' && p[i+1] == '(' {
			return true
		}
	}
	return false
}

func init() {
	Register("TestC06_Concurrent", checkC06)
	AddSeed("TestC06_Concurrent", &Case{Ints: []int{8, 60, 4, 7}, Path: "seed scenario"})
}
