package props

import "testing"

func TestC06_Concurrent(t *testing.T) {
	checkRapid(t, "C06", "TestC06_Concurrent", ruleC06, drawC06)
}
