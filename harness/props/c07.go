package props

import (
	"bytes"
	"encoding/json"
	"fmt"
	"reflect"
	"sort"

	"github.com/AsaiYusuke/jsonpath"
	"pgregory.net/rapid"

	"verif/harness/gen"
	"verif/harness/spec"
)

const ruleC07 = "objects with 2..12 keys from a set that orders differently by byte, by rune, by UTF-16 unit and by length ('a','B','aa','b','é','z','10','9','', U+FFFF, U+10000, ...), nested 1..3 levels, distinct leaves; for each logical document 3..6 physically different equal Go maps (different insertion orders, with/without pre-sizing, insert-then-delete of extra keys, equal subtrees held once and referenced twice or held as separate objects); then one member of a map just traversed is renamed in place and the path evaluated again on it and on a freshly built equal map; paths with wildcard, filter, recursive, multi-name and union steps; each (path, map) evaluated 3..10 times interleaved with evaluations on maps of other sizes (recycles the pooled key buffers). " +
	"Oracle: every repetition on every physical copy returns the same sequence, equal to SPEC (keys ascending byte-wise — cross-checked against the order encoding/json.Marshal prints — arrays by index, union/multi as written, '..' pre-order). " +
	"Non-trivial: the root object (or an object under it) has >=3 keys whose byte order differs from the order they were generated in. Distinct = distinct (path, document)."

var c07Keys = []string{"shipping_address", "shipping_method", "shipping_zone", "aaaaaaaaa", "aaaaaaaab", "aaaaaaaa", "prefix__10", "prefix__2", "prefix__1", "ééééé1", "ééééé0", "a", "B", "aa", "b", "é", "z", "10", "9", "", "￿", "\U00010000", "Z", "ab", "a0", "_", "~", "ä", "é", "A", "1", "-", "a b", "éé", "～", "k", "k\x00", "k\x00a", "k\x00b", "\x00", "k\x01"}

func c07Object(rt *rapid.T, depth int) *gen.DNode {
	n := 2 + gen.Uniform(rt, "nkeys", 11)
	o := gen.Obj()
	for i := 0; i < n; i++ {
		k := c07Keys[gen.Uniform(rt, "key", len(c07Keys))]
		if o.Get(k) != nil {
			continue
		}
		var v *gen.DNode
		switch r := gen.Uniform(rt, "val", 10); {
		case r < 3 && depth > 1:
			v = c07Object(rt, depth-1)
		case r < 4 && depth > 1:
			v = gen.Arr(c07Object(rt, depth-1), gen.Num(1))
			if gen.Uniform(rt, "rows", 2) == 0 {
				// rows of records: arrays directly inside an array, each holding several objects
				row := func() *gen.DNode {
					a := gen.Arr()
					for j, m := 0, 2+gen.Uniform(rt, "rowlen", 3); j < m; j++ {
						a.Kids = append(a.Kids, c07Object(rt, 1))
					}
					return a
				}
				v = gen.Arr(row(), row(), gen.Arr(gen.Arr(c07Object(rt, 1), c07Object(rt, 1))))
			}
		case r < 5:
			v = gen.Arr(gen.Num(1), gen.Num(2))
		default:
			v = gen.Num(0)
		}
		o.Set(k, v)
	}
	return o
}

func drawC07(rt *rapid.T) *Case {
	d := gen.DistinctLeaves(c07Object(rt, 1+gen.Uniform(rt, "depth", 3)))
	if gen.Uniform(rt, "twin", 3) == 0 {
		// the same subtree under two keys: equal values that some physical copies hold as ONE Go
		// object referenced twice and others as two separate objects
		src := d.Kids[gen.Uniform(rt, "twinsrc", len(d.Kids))]
		for _, k := range []string{"twin", "shipping_twin", "0twin"} {
			if d.Get(k) == nil {
				d.Set(k, src.Clone())
				break
			}
		}
	}
	if d.Get("seq") == nil {
		d.Set("seq", gen.Arr(gen.Num(10), gen.Num(11), gen.Num(12), gen.Num(13), gen.Num(14), gen.Num(15)))
	}
	if gen.Uniform(rt, "thread", 12) == 0 {
		// a thread nested 6..11 levels (objects and arrays in turn), two branches at every level
		levels := 6 + gen.Uniform(rt, "threadlevels", 6)
		var build func(n int) *gen.DNode
		build = func(n int) *gen.DNode {
			o := gen.Obj().Set("id", gen.Num(float64(n)))
			if n > 0 {
				kids := gen.Arr(build(n - 1))
				if n%2 == 0 {
					kids.Kids = append(kids.Kids, gen.Obj().Set("id", gen.Num(float64(100+n))))
				}
				o.Set("replies", kids)
			}
			return o
		}
		if d.Get("thread") == nil {
			d.Set("thread", build(levels))
		}
	}
	if gen.Uniform(rt, "longarray", 150) == 0 {
		// an array of more than a thousand elements somewhere below the root
		long := gen.Arr()
		for i, n := 0, 1025+gen.Uniform(rt, "longlen", 90); i < n; i++ {
			if i%97 == 5 {
				long.Kids = append(long.Kids, gen.Arr(gen.Num(float64(i)), gen.Obj().Set("a", gen.Num(float64(-i)))))
			} else {
				long.Kids = append(long.Kids, gen.Num(float64(i)))
			}
		}
		if d.Get("zlong") == nil {
			d.Set("zlong", long)
		}
	}
	keys := d.Keys
	k1 := keys[gen.Uniform(rt, "k1", len(keys))]
	k2 := keys[gen.Uniform(rt, "k2", len(keys))]
	name := func(k string) gen.Step { return gen.Step{Kind: gen.KName, Key: k, Not: gen.NSQ} }
	wild := gen.Step{Kind: gen.KWild, Not: gen.NDot}
	bwild := gen.Step{Kind: gen.KWild, Not: gen.NSQ}
	rec := func(s gen.Step) gen.Step { s.Rec = true; return s }
	exists := func(steps ...gen.Step) gen.Step {
		return gen.Step{Kind: gen.KFilter, Q: &gen.Query{Kind: gen.QExists, P: &gen.Path{Root: gen.RootAt, Steps: steps}}}
	}
	multi := func(ents ...gen.MultiEntry) gen.Step { return gen.Step{Kind: gen.KMulti, Ent: ents} }
	fn := func(name string, agg bool) gen.Step { return gen.Step{Kind: gen.KFunc, Fn: name, Agg: agg} }
	w, e := gen.MultiEntry{Wild: true}, func(k string) gen.MultiEntry { return gen.MultiEntry{Key: k, Q: gen.NSQ} }
	sl := func(a, b int) gen.Sub { return gen.Sub{Kind: gen.KSlice, Start: &a, End: &b, TwoPart: true} }
	templates := [][]gen.Step{
		{wild}, {bwild}, {rec(wild)}, {wild, wild}, {exists()}, {rec(exists())}, {multi(w, e(k1))}, {rec(name(k1))},
		{exists(name(k1))}, {multi(e(k2), e(k1), w)}, {rec(multi(e(k1), w))}, {rec(exists(name(k1)))}, {wild, exists()}, {multi(w, w)},
		{rec(bwild), wild}, {wild, rec(wild)}, {rec(multi(w, w))}, {exists(wild)},
		{wild, fn("g2", true)}, {rec(wild), fn("g2", true)}, {exists(), fn("g2", true)}, {wild, fn("f1", false)}, {wild, wild, fn("g5", true)},
		{multi(w, e(k1)), fn("g2", true)}, {exists(wild, fn("g2", true))}, {rec(exists(name(k1))), fn("g2", true), fn("f1", false)},
		// more names than a small object has members, unsorted, with repeats and absent names
		{multi(e(k2), e("zz1"), e(k1), e("zz0"), e(k2), e("zz2"))}, {wild, multi(e("z"), e("b"), e("zz"), e("a"), e("b"), e("B"), e("aa"))},
		{rec(multi(e("z"), e("a"), e("zz3"), e("B"), e("a"), e("zz4")))},
		// a function that re-enters the parsed function in the middle of a traversal
		// unions are read in the order written: slices that touch, high part first; repeated and crossing subscripts
		{name("seq"), gen.Step{Kind: gen.KUnion, Sub: []gen.Sub{sl(2, 4), sl(0, 2)}}}, {name("seq"), gen.Step{Kind: gen.KUnion, Sub: []gen.Sub{{Kind: gen.KIndex, N: 3}, sl(1, 3), {Kind: gen.KIndex, N: 0}}}},
		{rec(gen.Step{Kind: gen.KUnion, Sub: []gen.Sub{sl(1, 2), sl(0, 1)}})}, {name("seq"), gen.Step{Kind: gen.KUnion, Sub: []gen.Sub{sl(4, 6), sl(2, 4), sl(0, 2)}}},
		{name("seq"), gen.Step{Kind: gen.KUnion, Sub: []gen.Sub{{Kind: gen.KIndex, N: 1}, {Kind: gen.KIndex, N: 0}, {Kind: gen.KIndex, N: 1}}}},
		// subscripts after a recursive descent (arrays of every length below)
		{rec(gen.Step{Kind: gen.KIndex, Sub: []gen.Sub{{Kind: gen.KIndex, N: 0}}})}, {rec(gen.Step{Kind: gen.KIndex, Sub: []gen.Sub{{Kind: gen.KIndex, N: -1}}})},
		{rec(gen.Step{Kind: gen.KUnion, Sub: []gen.Sub{{Kind: gen.KIndex, N: 1}, {Kind: gen.KIndex, N: 0}}})},
		// user functions inside the filter of an object: they are called member by member, in key order
		{exists(fn("f1", false))}, {exists(name(k1), fn("f4", false))}, {rec(exists(fn("f1", false)))}, {wild, exists(fn("f4", false))}, {exists(wild, fn("g1", true))},
		{rec(wild), fn("fre", false)}, {wild, fn("fre", false)}, {rec(name(k1)), fn("fre", false)}, {rec(exists(name(k1))), fn("fre", false)}, {multi(w, e(k1)), fn("fre", false)},
	}
	var p *gen.Path
	if gen.Uniform(rt, "general", 4) == 0 {
		g := gen.NewG(rt, gen.PathOpts{MaxSteps: 3, MinSteps: 1, Funcs: true, FuncPct: 30})
		p = g.Path()
	} else {
		p = &gen.Path{Root: gen.RootDollar, Steps: templates[gen.Uniform(rt, "template", len(templates))]}
	}
	c := &Case{Path: gen.Render(p, gen.Canon).Text, AST: p, Doc: d}
	ncopies := 3 + gen.Uniform(rt, "copies", 4)
	for i := 0; i < ncopies; i++ {
		c.Ints = append(c.Ints, int(rapid.Uint32().Draw(rt, "layout")))
	}
	c.Ints = append(c.Ints, 3+gen.Uniform(rt, "reps", 8)) // last entry: repetitions
	return c
}

// buildPhysical constructs the document as Go maps with a seed-dependent physical layout.
func buildPhysical(d *gen.DNode, seed *uint64) interface{} {
	return buildPhysicalMemo(d, seed, nil)
}

// buildPhysicalMemo: with a non-nil memo, equal container subtrees (same JSON text) are built
// once and referenced from every place they occur.
func buildPhysicalMemo(d *gen.DNode, seed *uint64, memo map[string]interface{}) (out interface{}) {
	if memo != nil && (d.K == gen.DObj || d.K == gen.DArr) && len(d.Kids) > 0 {
		key := d.JSON()
		if v, ok := memo[key]; ok {
			return v
		}
		defer func() { memo[key] = out }()
	}
	next := func(n int) int {
		*seed = *seed*6364136223846793005 + 1442695040888963407
		return int((*seed >> 33) % uint64(n))
	}
	switch d.K {
	case gen.DObj:
		order := make([]int, len(d.Keys))
		for i := range order {
			order[i] = i
		}
		for i := len(order) - 1; i > 0; i-- {
			j := next(i + 1)
			order[i], order[j] = order[j], order[i]
		}
		var m map[string]interface{}
		switch next(3) {
		case 0:
			m = map[string]interface{}{}
		case 1:
			m = make(map[string]interface{}, 4*len(d.Keys)+8)
		default:
			m = make(map[string]interface{}, 1)
		}
		junk := next(3) == 0
		if junk {
			for i := 0; i < 20; i++ {
				m[fmt.Sprintf("junk-%d", i)] = i
			}
		}
		for _, i := range order {
			m[d.Keys[i]] = buildPhysicalMemo(d.Kids[i], seed, memo)
		}
		if junk {
			for i := 0; i < 20; i++ {
				delete(m, fmt.Sprintf("junk-%d", i))
			}
		}
		return m
	case gen.DArr:
		a := make([]interface{}, len(d.Kids))
		for i, k := range d.Kids {
			a[i] = buildPhysicalMemo(k, seed, memo)
		}
		return a
	}
	return gen.MustDecode(d.JSON(), false)
}

// marshalKeyOrder returns the keys of m in the order encoding/json prints them.
func marshalKeyOrder(m map[string]interface{}) []string {
	b, err := json.Marshal(m)
	if err != nil {
		return nil
	}
	dec := json.NewDecoder(bytes.NewReader(b))
	var keys []string
	depth := 0
	expectKey := false
	for {
		tok, err := dec.Token()
		if err != nil {
			break
		}
		switch t := tok.(type) {
		case json.Delim:
			switch t {
			case '{', '[':
				depth++
				expectKey = t == '{' && depth == 1
			case '}', ']':
				depth--
				if depth == 1 {
					expectKey = true
				}
			}
		case string:
			if depth == 1 && expectKey {
				keys = append(keys, t)
				expectKey = false
			} else if depth == 1 {
				expectKey = true
			}
		default:
			if depth == 1 {
				expectKey = true
			}
		}
	}
	return keys
}

var c07Other = []interface{}{
	map[string]interface{}{"x": 1.0},
	map[string]interface{}{"q": 1.0, "p": 2.0, "o": 3.0, "n": 4.0, "m": 5.0, "l": 6.0, "k": 7.0, "j": 8.0, "i": 9.0, "h": 10.0, "g": 11.0, "f": 12.0, "e": 13.0, "d": 14.0, "c": 15.0},
	map[string]interface{}{"b": map[string]interface{}{"z": 1.0, "y": 2.0}, "a": 1.0},
	map[string]interface{}{},
}

func checkC07(c *Case, st *Stats) string {
	docText := c.Doc.JSON()
	Journal(c.Check, c.Path, docText, "")
	rec := &Recorder{}
	f, err := jsonpath.Parse(c.Path, BuildConfig(rec, true, false))
	if err != nil {
		return fmt.Sprintf("generated path was rejected by Parse: %v", err)
	}
	reentries := 0
	rec.Reenter = func() {
		reentries++
		_, _ = f(c07Other[reentries%len(c07Other)])
	}
	other, _ := jsonpath.Parse("$..*")
	// the same path in accessor mode: the accessors come in the same order and lead to the same values
	fa, err := jsonpath.Parse(c.Path, BuildConfig(nil, true, true))
	if err != nil {
		return fmt.Sprintf("generated path was rejected by Parse in accessor mode: %v", err)
	}
	firstLog := ""
	haveLog := false
	reps := c.Ints[len(c.Ints)-1]
	layouts := c.Ints[:len(c.Ints)-1]
	res := spec.Eval(c.AST, c.Doc.Build(false), gen.PureFuncs{})
	if res.Unspecified {
		return ""
	}
	want := res.Values()
	if work := (c.Doc.Size() + 4*len(want)) * reps * len(layouts); work > 150000 {
		// a big document or result (the thousand-element array, a deep thread under '..'): the cost of
		// a case is copies x repetitions x (values + logged calls); keep two copies and two repetitions
		if len(layouts) > 2 {
			layouts = layouts[:2]
		}
		if reps > 2 {
			reps = 2
		}
		st.Class("big-case:two-copies-two-repetitions")
	}
	for li, layout := range layouts {
		seed := uint64(layout)*2654435761 + 1
		var memo map[string]interface{}
		if layout%2 == 1 {
			memo = map[string]interface{}{}
		}
		doc := buildPhysicalMemo(c.Doc, &seed, memo)
		if li == 0 {
			if m, ok := doc.(map[string]interface{}); ok {
				mk := marshalKeyOrder(m)
				sk := spec.SortedKeys(m)
				if !reflect.DeepEqual(mk, sk) && !(len(mk) == 0 && len(sk) == 0) {
					return fmt.Sprintf("harness: SPEC's byte-wise key order %q differs from encoding/json's %q", sk, mk)
				}
			}
		}
		for r := 0; r < reps; r++ {
			rec.Calls, rec.Errs = nil, 0
			got, rerr := f(doc)
			st.Eval(1)
			// the order in which user functions meet the values is part of the visiting order
			if log := callLogString(rec); !haveLog {
				firstLog, haveLog = log, true
				if len(rec.Calls) >= 2 {
					st.Class("call-order-compared")
				}
			} else if log != firstLog {
				return fmt.Sprintf("copy %d (layout %d) repetition %d: user functions were called in a different order than in the first evaluation:\n   now   %s\n   first %s", li, layout, r, log, firstLog)
			}
			if r == 0 {
				ga, aerr := fa(doc)
				st.Eval(1)
				if (aerr == nil) != (rerr == nil) {
					return fmt.Sprintf("copy %d: plain mode (%s, %v) but accessor mode (%d accessors, %v)", li, JSONString(got), rerr, len(ga), aerr)
				}
				if aerr == nil {
					if len(ga) != len(want) {
						return fmt.Sprintf("copy %d: accessor mode returned %d accessors, expected %d values", li, len(ga), len(want))
					}
					for i, v := range ga {
						a, ok := v.(jsonpath.Accessor)
						if !ok || a.Get == nil {
							return fmt.Sprintf("copy %d: accessor-mode result %d is %T", li, i, v)
						}
						if x := a.Get(); !reflect.DeepEqual(x, want[i]) {
							return fmt.Sprintf("copy %d (layout %d): accessor %d leads to %s, the sequence has %s there (whole sequence %s)", li, layout, i, JSONString(x), JSONString(want[i]), JSONString(want))
						}
					}
					st.Class("accessor-mode-sequence")
				}
			}
			if len(want) == 0 {
				if rerr == nil {
					return fmt.Sprintf("copy %d repetition %d: SPEC selects nothing, library returned %s", li, r, JSONString(got))
				}
			} else {
				if rerr != nil {
					return fmt.Sprintf("copy %d repetition %d failed: %v (expected %s)", li, r, rerr, JSONString(want))
				}
				if !reflect.DeepEqual(got, want) {
					return fmt.Sprintf("copy %d (layout %d) repetition %d returned a different sequence:\n   got  %s\n   want %s", li, layout, r, JSONString(got), JSONString(want))
				}
			}
			// recycle the pooled key buffers with maps of other sizes
			_, _ = other(c07Other[(li+r)%len(c07Other)])
		}
	}
	if msg := c07RenameInPlace(c, f, st, layouts, reps); msg != "" {
		return msg
	}
	// non-triviality
	nt := false
	var walk func(d *gen.DNode)
	walk = func(d *gen.DNode) {
		if d.K == gen.DObj && len(d.Keys) >= 3 {
			sorted := append([]string(nil), d.Keys...)
			sort.Strings(sorted)
			if !reflect.DeepEqual(sorted, d.Keys) {
				nt = true
			}
		}
		for _, k := range d.Kids {
			walk(k)
		}
	}
	walk(c.Doc)
	st.Class("results:" + bucket(len(want)))
	if nt && len(want) >= 2 {
		st.Class("nontrivial")
		st.NonTrivialCase(c.Path+"\x00"+docText, func() interface{} {
			return map[string]interface{}{"path": c.Path, "doc": docText, "physical_copies": len(layouts), "repetitions": reps, "sequence": JSONString(want)}
		})
	}
	return ""
}

// c07RenameInPlace: a map the parsed function has just traversed is edited in place (one member
// renamed, so its size stays the same) and evaluated again: the sequence must be that of the
// document as it is now, the same as on an independently built equal map.
func c07RenameInPlace(c *Case, f func(interface{}) ([]interface{}, error), st *Stats, layouts []int, reps int) string {
	if len(c.Doc.Keys) == 0 {
		return ""
	}
	seed := uint64(layouts[0])*2654435761 + 99
	doc := buildPhysical(c.Doc, &seed)
	m, ok := doc.(map[string]interface{})
	if !ok {
		return ""
	}
	_, _ = f(doc)
	// choose the member and its new name from the layout number (deterministic for replay)
	old := c.Doc.Keys[layouts[0]%len(c.Doc.Keys)]
	var fresh string
	for i := 0; i < len(c07Keys); i++ {
		k := c07Keys[(layouts[0]/7+i)%len(c07Keys)]
		if c.Doc.Get(k) == nil {
			fresh = k
			break
		}
	}
	if fresh == "" {
		return ""
	}
	v := m[old]
	delete(m, old)
	m[fresh] = v
	d2 := c.Doc.Clone()
	for i, k := range d2.Keys {
		if k == old {
			d2.Keys[i] = fresh
		}
	}
	res := spec.Eval(c.AST, d2.Build(false), gen.PureFuncs{})
	if res.Unspecified {
		return ""
	}
	want := res.Values()
	seed2 := uint64(layouts[0])*2654435761 + 7
	other := buildPhysical(d2, &seed2)
	st.Class("renamed-in-place")
	for r := 0; r < 2; r++ {
		for which, target := range []interface{}{doc, other} {
			got, rerr := f(target)
			st.Eval(1)
			where := "the map edited in place"
			if which == 1 {
				where = "an independently built equal map"
			}
			if len(want) == 0 {
				if rerr == nil {
					return fmt.Sprintf("after renaming member %q to %q: SPEC selects nothing, on %s the library returned %s", old, fresh, where, JSONString(got))
				}
				continue
			}
			if rerr != nil {
				return fmt.Sprintf("after renaming member %q to %q: on %s the library failed: %v (expected %s)", old, fresh, where, rerr, JSONString(want))
			}
			if !reflect.DeepEqual(got, want) {
				return fmt.Sprintf("after renaming member %q to %q: on %s the library returned\n   got  %s\n   want %s", old, fresh, where, JSONString(got), JSONString(want))
			}
		}
	}
	return ""
}

func init() {
	Register("TestC07_Order", checkC07)
}
