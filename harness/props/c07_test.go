package props

import "testing"

func TestC07_Order(t *testing.T) {
	checkRapid(t, "C07", "TestC07_Order", ruleC07, drawC07)
}
