package props

import (
	"fmt"
	"hash/fnv"

	"github.com/AsaiYusuke/jsonpath"
	"pgregory.net/rapid"

	"verif/harness/gen"
	"verif/harness/spec"
)

const ruleC08 = "generated paths (no aggregate on the main path); every split point k such that the continuation Q = steps[k:] contains no '$'-rooted operand and no aggregate; documents from G-DOC. " +
	"Oracle (three retrievals): Retrieve(P.Q, d) == concatenation in order of Retrieve('$'.Q, v) for v in Retrieve(P, d), failing branches contributing nothing, and P.Q fails iff that concatenation is empty; " +
	"corollaries at the split: a union / multi-name selector equals the concatenation of its single selectors, and '..X' equals X applied to every container in pre-order (traversal computed by the harness). " +
	"Non-trivial: P selects >= 2 values and Q has >= 1 step. Distinct = distinct (path, split, document, mode)."

func drawC08(rt *rapid.T) *Case {
	g := gen.NewG(rt, gen.PathOpts{Funcs: true, NoAgg: true, FuncPct: 25, MinSteps: 2, RootOmit: false, ReuseFuncs: true, LongPaths: true, NoDeepDocs: true})
	p := g.Path()
	d := g.Doc(p)
	c := &Case{Path: gen.Render(p, gen.Canon).Text, AST: p, Doc: d, UseNumber: rapid.Bool().Draw(rt, "usenumber"), Funcs: true}
	if gen.Uniform(rt, "shared", 7) == 0 {
		c.Ints = []int{1 + int(rapid.Uint32().Draw(rt, "shareseed"))}
	} else if gen.Uniform(rt, "opaque", 9) == 0 {
		// values that are not decoded JSON (pointers to containers, typed maps ...): what P selects
		// is handed to '$'.Q as it is
		c.Doc = g.Opaquify(d)
		c.DocKind = "opaque"
	}
	return c
}

// stepClean: no "$"-rooted operand and no aggregate anywhere inside the step.
func stepClean(s *gen.Step) bool {
	if s.Kind == gen.KFunc {
		return !s.Agg
	}
	if s.Kind != gen.KFilter {
		return true
	}
	clean := true
	s.Q.WalkPaths(func(p *gen.Path) {
		if p.Root == gen.RootDollar {
			clean = false
		}
		for i := range p.Steps {
			if p.Steps[i].Kind == gen.KFunc && p.Steps[i].Agg {
				clean = false
			}
		}
	})
	return clean
}

func retrieveSteps(steps []gen.Step, doc interface{}, st *Stats) ([]interface{}, error, string) {
	text := gen.RenderSteps(steps).Text
	h := fnv.New32a()
	h.Write([]byte(text))
	hv := h.Sum32() >> 9
	if hv%5 == 0 {
		// the same steps written without the leading "$" (where the grammar allows it) ...
		text = gen.RenderStepsRootless(steps).Text
	}
	if hv%7 == 0 {
		// ... and sometimes right after a Parse that was rejected half-way
		poison := poisonPaths[int(hv/7)%len(poisonPaths)]
		noteParse(poison, true, false)
		_, _ = jsonpath.Parse(poison, BuildConfig(nil, true, false))
	}
	if hv%29 == 3 {
		panickingRetrieval(int(hv/29), 1+int(hv/29)%3)
	}
	rec := &Recorder{}
	cfg := BuildConfig(rec, true, false)
	noteParse(text, true, false)
	f, err := jsonpath.Parse(text, cfg)
	if err != nil {
		return nil, nil, fmt.Sprintf("generated path %q was rejected by Parse: %v", text, err)
	}
	st.Eval(1)
	reenterDoc := gen.MustDecode(tinyDoc, false)
	rec.Reenter = func() { _, _ = f(reenterDoc) } // "fre" re-enters this parsed function mid-evaluation
	got, rerr := f(doc)
	return got, rerr, ""
}

// containersPreOrder lists v and every descendant container, pre-order, objects by key order.
func containersPreOrder(v interface{}, out *[]interface{}) {
	switch t := v.(type) {
	case map[string]interface{}:
		*out = append(*out, v)
		for _, k := range spec.SortedKeys(t) {
			containersPreOrder(t[k], out)
		}
	case []interface{}:
		*out = append(*out, v)
		for _, c := range t {
			containersPreOrder(c, out)
		}
	}
}

func checkC08(c *Case, st *Stats) string {
	docText := c.Doc.JSON()
	Journal(c.Check, c.Path, docText, flagString(c))
	doc := c.Document()
	if len(c.Ints) > 0 {
		doc = gen.ShareSubtrees(doc, uint64(c.Ints[0]))
		st.Class("doc:shared-subtree")
	}
	if c.DocKind == "opaque" {
		st.Class("doc:opaque-values")
	}
	steps := c.AST.Steps
	for k := 1; k < len(steps); k++ {
		if steps[k-1].Kind == gen.KFunc {
			break // P must be a path prefix of steps; functions stay with Q
		}
		clean := true
		for i := k; i < len(steps); i++ {
			if !stepClean(&steps[i]) {
				clean = false
			}
		}
		if !clean {
			st.Class("split:skipped($ operand or aggregate in Q)")
			continue
		}
		P, Q := steps[:k], steps[k:]
		rP, errP, msg := retrieveSteps(P, doc, st)
		if msg != "" {
			return msg
		}
		rPQ, errPQ, msg := retrieveSteps(steps, doc, st)
		if msg != "" {
			return msg
		}
		var expected []interface{}
		for _, v := range rP {
			rQ, errQ, msg := retrieveSteps(Q, v, st)
			if msg != "" {
				return msg
			}
			if errQ == nil {
				expected = append(expected, rQ...)
			}
			// corollaries at the split point
			if m := corollaries(Q, v, rQ, errQ, st); m != "" {
				return fmt.Sprintf("split %d (Q = %s) on value %s: %s", k, gen.RenderSteps(Q).Text, JSONString(v), m)
			}
		}
		if k == 1 && errPQ == nil && c.DocKind != "opaque" {
			// the whole path in accessor mode: the accessors lead to the same values in the same order
			var acfg jsonpath.Config
			acfg = BuildConfig(nil, true, true)
			ga, ea := jsonpath.Retrieve(gen.RenderSteps(steps).Text, doc, acfg)
			st.Eval(1)
			if ea != nil || len(ga) != len(rPQ) {
				return fmt.Sprintf("accessor mode: %d accessors (%v), plain mode %d values", len(ga), ea, len(rPQ))
			}
			for i := range ga {
				a, ok := ga[i].(jsonpath.Accessor)
				if !ok || a.Get == nil || !deepSame(a.Get(), rPQ[i]) {
					return fmt.Sprintf("accessor mode: accessor %d leads to %s, plain mode selects %s", i, JSONString(ga[i]), JSONString(rPQ[i]))
				}
			}
			st.Class("accessor-mode-whole-path")
		}
		st.Class("split:checked")
		pt, qt := gen.RenderSteps(P).Text, gen.RenderSteps(Q).Text
		if errP != nil && errPQ == nil {
			return fmt.Sprintf("split %d: P = %s fails (%v) but P.Q returns %s", k, pt, errP, JSONString(rPQ))
		}
		if len(expected) == 0 {
			if errPQ == nil {
				return fmt.Sprintf("split %d: P = %s, Q = %s: no branch of Q succeeds but P.Q returns %s", k, pt, qt, JSONString(rPQ))
			}
			if !DescribeErr(errPQ).IsRuntime() {
				return fmt.Sprintf("split %d: undocumented error %T %v", k, errPQ, errPQ)
			}
		} else {
			if errPQ != nil {
				return fmt.Sprintf("split %d: P = %s, Q = %s: composition gives %s but P.Q fails: %v", k, pt, qt, JSONString(expected), errPQ)
			}
			if !deepSameList(rPQ, expected) {
				return fmt.Sprintf("split %d: P = %s, Q = %s:\n   P.Q         %s\n   composition %s", k, pt, qt, JSONString(rPQ), JSONString(expected))
			}
		}
		if len(rP) >= 2 {
			st.Class("nontrivial")
			st.Class("split-left:" + steps[k-1].KindTag())
			st.Class("split-right:" + steps[k].KindTag())
			st.NonTrivialCase(fmt.Sprintf("%s\x00%d\x00%s\x00%v", c.Path, k, docText, c.UseNumber), func() interface{} {
				return map[string]interface{}{"P": pt, "Q": qt, "doc": docText, "P_selects": len(rP), "PQ_result": JSONString(rPQ), "PQ_error": fmt.Sprint(errPQ)}
			})
		}
	}
	return ""
}

// corollaries checks union/multi decomposition and the '..' expansion for Q applied to v.
func corollaries(Q []gen.Step, v interface{}, rQ []interface{}, errQ error, st *Stats) string {
	first := Q[0]
	rest := Q[1:]
	with := func(s gen.Step) []gen.Step {
		return append([]gen.Step{s}, rest...)
	}
	if first.Rec {
		// '..X' == X applied to every container in pre-order
		var conts []interface{}
		containersPreOrder(v, &conts)
		x := first
		x.Rec = false
		var expected []interface{}
		for _, cnt := range conts {
			r, e, msg := retrieveSteps(with(x), cnt, st)
			if msg != "" {
				return msg
			}
			if e == nil {
				expected = append(expected, r...)
			}
		}
		st.Class("corollary:..X")
		if (errQ == nil) != (len(expected) > 0) || (errQ == nil && !deepSameList(rQ, expected)) {
			return fmt.Sprintf("'..X' differs from X applied to every container in pre-order:\n   ..X      (%s, %v)\n   expanded %s", JSONString(rQ), errQ, JSONString(expected))
		}
		return ""
	}
	// The decomposition is about the container kind the selector is defined on: a union is a
	// selector of arrays, a multi-name selector one of objects (all-wildcard: of both). On any
	// other value the whole selector is a type error while a lone [*] would still apply.
	_, isArr := v.([]interface{})
	_, isObj := v.(map[string]interface{})
	var singles []gen.Step
	switch first.Kind {
	case gen.KUnion:
		if !isArr {
			return ""
		}
		for _, sub := range first.Sub {
			k := sub.Kind
			if k == gen.KWild {
				singles = append(singles, gen.Step{Kind: gen.KWild, Not: gen.NSQ})
				continue
			}
			singles = append(singles, gen.Step{Kind: k, Sub: []gen.Sub{sub}})
		}
	case gen.KMulti:
		allWild := true
		for _, e := range first.Ent {
			allWild = allWild && e.Wild
		}
		anyWild := false
		for _, e := range first.Ent {
			anyWild = anyWild || e.Wild
		}
		// (on an array a selector of names only fails as a whole, and so does each of its names)
		if !isObj && !(isArr && (allWild || !anyWild)) {
			return ""
		}
		for _, e := range first.Ent {
			if e.Wild {
				singles = append(singles, gen.Step{Kind: gen.KWild, Not: gen.NSQ})
			} else {
				singles = append(singles, gen.Step{Kind: gen.KName, Key: e.Key, Not: e.Q})
			}
		}
	default:
		return ""
	}
	var expected []interface{}
	for _, s := range singles {
		r, e, msg := retrieveSteps(with(s), v, st)
		if msg != "" {
			return msg
		}
		if e == nil {
			expected = append(expected, r...)
		}
	}
	st.Class("corollary:union/multi")
	if (errQ == nil) != (len(expected) > 0) || (errQ == nil && !deepSameList(rQ, expected)) {
		return fmt.Sprintf("selector differs from the concatenation of its single selectors:\n   whole  (%s, %v)\n   concat %s", JSONString(rQ), errQ, JSONString(expected))
	}
	return ""
}

func init() {
	Register("TestC08_Compose", checkC08)
	d1 := gen.Obj().Set("a", gen.Obj().Set("c", gen.Num(1))).Set("b", gen.Obj().Set("c", gen.Num(2)))
	AddSeed("TestC08_Compose", &Case{Path: "$..['a','b'].c", Doc: d1, Funcs: true, AST: &gen.Path{Steps: []gen.Step{
		{Kind: gen.KMulti, Rec: true, Ent: []gen.MultiEntry{{Key: "a"}, {Key: "b"}}}, {Kind: gen.KName, Key: "c"}}}})
}
