package props

import "testing"

func TestC08_Compose(t *testing.T) {
	checkRapid(t, "C08", "TestC08_Compose", ruleC08, drawC08)
}
