package props

import (
	"encoding/json"
	"fmt"
	"sort"
	"strings"

	"github.com/AsaiYusuke/jsonpath"
	"pgregory.net/rapid"

	"verif/harness/gen"
)

const ruleC09 = "filter expressions from existence tests, comparisons (literal of each type / '@'-path / '$'-path operands, six operators, both orders) and regex tests, combined with &&, ||, parentheses to depth 3, '!' on existence tests; containers (array or object, under $.list) of 0..6 pairwise-distinct members derived from the expression's operand paths so that members hit, miss or mistype them. " +
	"Oracle, with sel(X) = index set selected by $.list[?(X)]: at every node of the expression sel(A&&B)=sel(A) n sel(B), sel(A||B)=sel(A) u sel(B), sel((A))=sel(A), sel(!p)=all\\sel(p), sel(x!=y)=all\\sel(x==y), mirror laws for all six operators, sel(x<=n)=sel(x<n) u sel(x==n) (and >=) against number literals; results in container order. " +
	"Non-trivial: >=2 members with different verdicts for some atom and the expression has a logical operator or a comparison. Distinct = distinct (expression, document)."

func drawC09(rt *rapid.T) *Case {
	g := gen.NewG(rt, gen.PathOpts{Funcs: gen.Uniform(rt, "funcs", 3) == 0, ReuseFuncs: true, OperandFuncPct: 35, FilterHeavy: true, LogicDepth: 3, FilterDepth: 2})
	q := g.Query(3, 1)
	n := gen.Uniform(rt, "members", 7)
	asObj := gen.Uniform(rt, "asobj", 3) == 0
	cont, atRoot := g.FilterContainer(q, n, asObj)
	root := gen.Obj().Set("list", cont)
	if atRoot != nil {
		root = gen.Merge(atRoot, root)
		if root.K != gen.DObj {
			root = gen.Obj().Set("list", cont)
		}
		root.Set("list", cont)
	}
	p := &gen.Path{Root: gen.RootDollar, Steps: []gen.Step{{Kind: gen.KName, Key: "list", Not: gen.NDot}, {Kind: gen.KFilter, Q: q}}}
	c := &Case{Path: gen.Render(p, gen.Canon).Text, AST: p, Doc: root, UseNumber: rapid.Bool().Draw(rt, "usenumber"), Funcs: true}
	if gen.Uniform(rt, "bare", 4) == 0 {
		// every function-free sub-expression of this case goes through Retrieve with no Config
		c.Accessor = false
		c.Note = ""
		c.DocKind = "bare-retrieve"
	}
	return c
}

// c09Entry is a parsed function kept across cases, with the first and the latest document it
// was evaluated on (enough to rebuild "remembers its first / its previous document" defects
// in a fresh process: the replay evaluates them in that order before the case itself).
type c09Entry struct {
	f               func(interface{}) ([]interface{}, error)
	first, last     string
	firstUN, lastUN bool
}

var c09Parsed = map[string]*c09Entry{}

type selector struct {
	c       *Case
	doc     interface{}
	members []string // canonical JSON of each member, container order
	cache   map[string][]int
	st      *Stats
	err     string
	reused  []string // (path, first doc, first mode, last doc, last mode) of every reused parsed function
}

func canon(v interface{}) string {
	b, _ := json.Marshal(v) // map keys are sorted by encoding/json
	return string(b)
}

// sel returns the sorted index set selected by $.list[?(text)].
func (s *selector) sel(text string) []int {
	if r, ok := s.cache[text]; ok {
		return r
	}
	path := "$.list[?(" + text + ")]"
	// Parsed functions are kept for the life of the process and reused by later cases with the
	// same sub-expression (simple atoms recur constantly): a parsed function that remembers
	// anything about an earlier document breaks the laws on a later one.
	docText := s.c.Doc.JSON()
	ent, ok := c09Parsed[path]
	if !ok {
		f, err := jsonpath.Parse(path, BuildConfig(nil, true, false))
		if err != nil {
			s.err = fmt.Sprintf("sub-expression %q was rejected by Parse: %v", path, err)
			return nil
		}
		if len(c09Parsed) > 4000 {
			c09Parsed = map[string]*c09Entry{}
		}
		ent = &c09Entry{f: f, first: docText, firstUN: s.c.UseNumber}
		c09Parsed[path] = ent
	} else {
		s.st.Class("parsed-function-reused")
		s.reused = append(s.reused, path, ent.first, fmt.Sprint(ent.firstUN), ent.last, fmt.Sprint(ent.lastUN))
	}
	ent.last, ent.lastUN = docText, s.c.UseNumber
	f := ent.f
	var got []interface{}
	var rerr error
	if !strings.Contains(path, "()") && s.c.DocKind == "bare-retrieve" {
		// the one-call form with no Config (the sub-expression uses no function)
		got, rerr = jsonpath.Retrieve(path, s.doc)
		noteParseVia(path, false, false, true)
		s.st.Class("api:Retrieve(no Config)")
	} else {
		got, rerr = f(s.doc)
	}
	s.st.Eval(1)
	var idx []int
	if rerr != nil {
		if t := DescribeErr(rerr).Type; t != "ErrorMemberNotExist" {
			s.err = fmt.Sprintf("%s failed with %v (only 'nothing selected' is expected)", path, rerr)
			return nil
		}
	}
	next := 0
	for _, v := range got {
		cv := canon(v)
		found := -1
		for i := next; i < len(s.members); i++ {
			if s.members[i] == cv {
				found = i
				break
			}
		}
		if found < 0 {
			s.err = fmt.Sprintf("%s returned %s, which is not a member in container order (members %v)", path, cv, s.members)
			return nil
		}
		idx = append(idx, found)
		next = found + 1
	}
	s.cache[text] = idx
	return idx
}

func setOf(a []int) map[int]bool {
	m := map[int]bool{}
	for _, x := range a {
		m[x] = true
	}
	return m
}

func sameSet(a, b []int) bool {
	if len(a) != len(b) {
		return false
	}
	for i := range a {
		if a[i] != b[i] {
			return false
		}
	}
	return true
}

func union(a, b []int) []int {
	m := setOf(a)
	for _, x := range b {
		m[x] = true
	}
	return sortedKeysInt(m)
}

func inter(a, b []int) []int {
	mb := setOf(b)
	m := map[int]bool{}
	for _, x := range a {
		if mb[x] {
			m[x] = true
		}
	}
	return sortedKeysInt(m)
}

func complement(a []int, n int) []int {
	ma := setOf(a)
	m := map[int]bool{}
	for i := 0; i < n; i++ {
		if !ma[i] {
			m[i] = true
		}
	}
	return sortedKeysInt(m)
}

func sortedKeysInt(m map[int]bool) []int {
	out := make([]int, 0, len(m))
	for k := range m {
		out = append(out, k)
	}
	sort.Ints(out)
	return out
}

func mirror(op string) string {
	switch op {
	case "<":
		return ">"
	case "<=":
		return ">="
	case ">":
		return "<"
	case ">=":
		return "<="
	}
	return op
}

func (s *selector) law(name string, lhsText string, lhs, rhs []int) string {
	s.st.Class("law:" + name)
	if !sameSet(lhs, rhs) {
		return fmt.Sprintf("law %s broken for %q: selected %v, the law gives %v (members %s)", name, lhsText, lhs, rhs, strings.Join(s.members, " | "))
	}
	return ""
}

func (s *selector) check(q *gen.Query) string {
	n := len(s.members)
	text := gen.RenderQuery(q, gen.Canon)
	whole := s.sel(text)
	if s.err != "" {
		return s.err
	}
	switch q.Kind {
	case gen.QAnd, gen.QOr:
		if m := s.check(q.L); m != "" {
			return m
		}
		if m := s.check(q.R); m != "" {
			return m
		}
		l, r := s.sel(gen.RenderQuery(q.L, gen.Canon)), s.sel(gen.RenderQuery(q.R, gen.Canon))
		if s.err != "" {
			return s.err
		}
		if q.Kind == gen.QAnd {
			return s.law("and=intersection", text, whole, inter(l, r))
		}
		return s.law("or=union", text, whole, union(l, r))
	case gen.QParen:
		if m := s.check(q.L); m != "" {
			return m
		}
		return s.law("parentheses-neutral", text, whole, s.sel(gen.RenderQuery(q.L, gen.Canon)))
	case gen.QExists:
		pos := *q
		pos.Not = !q.Not
		other := s.sel(gen.RenderQuery(&pos, gen.Canon))
		if s.err != "" {
			return s.err
		}
		return s.law("not=complement", text, whole, complement(other, n))
	case gen.QCmp:
		// mirror
		m := *q
		m.A, m.B, m.Op = q.B, q.A, mirror(q.Op)
		if msg := s.law("mirror:"+q.Op, text, whole, s.sel(gen.RenderQuery(&m, gen.Canon))); msg != "" || s.err != "" {
			return msg + s.err
		}
		switch q.Op {
		case "==", "!=":
			o := *q
			if q.Op == "==" {
				o.Op = "!="
			} else {
				o.Op = "=="
			}
			if msg := s.law("ne=complement-of-eq", text, whole, complement(s.sel(gen.RenderQuery(&o, gen.Canon)), n)); msg != "" || s.err != "" {
				return msg + s.err
			}
		case "<=", ">=":
			if (q.A.IsLit && q.A.LK == gen.LNum) || (q.B.IsLit && q.B.LK == gen.LNum) {
				strict, eq := *q, *q
				strict.Op = q.Op[:1]
				eq.Op = "=="
				u := union(s.sel(gen.RenderQuery(&strict, gen.Canon)), s.sel(gen.RenderQuery(&eq, gen.Canon)))
				if msg := s.law(q.Op+"=strict-or-equal", text, whole, u); msg != "" || s.err != "" {
					return msg + s.err
				}
			}
		}
	}
	return s.err
}

func checkC09(c *Case, st *Stats) string {
	docText := c.Doc.JSON()
	Journal(c.Check, c.Path, docText, flagString(c))
	doc := c.Document()
	root, _ := doc.(map[string]interface{})
	s := &selector{c: c, doc: doc, cache: map[string][]int{}, st: st}
	switch t := root["list"].(type) {
	case []interface{}:
		for _, m := range t {
			s.members = append(s.members, canon(m))
		}
		st.Class("container:array")
	case map[string]interface{}:
		keys := make([]string, 0, len(t))
		for k := range t {
			keys = append(keys, k)
		}
		sort.Strings(keys)
		for _, k := range keys {
			s.members = append(s.members, canon(t[k]))
		}
		st.Class("container:object")
	default:
		return "harness: $.list is not a container"
	}
	st.Class(fmt.Sprintf("members:%d", len(s.members)))
	// replay in a fresh process: rebuild the parsed functions the failing case had reused
	if len(c.Strs) > 0 && len(c09Parsed) == 0 {
		for i := 0; i+4 < len(c.Strs); i += 5 {
			if f, err := jsonpath.Parse(c.Strs[i], BuildConfig(nil, true, false)); err == nil {
				for _, k := range []int{1, 3} {
					if d, derr := gen.Decode(c.Strs[i+k], c.Strs[i+k+1] == "true"); derr == nil && c.Strs[i+k] != "" {
						_, _ = f(d)
					}
				}
				c09Parsed[c.Strs[i]] = &c09Entry{f: f, first: c.Strs[i+1], firstUN: c.Strs[i+2] == "true", last: c.Strs[i+3], lastUN: c.Strs[i+4] == "true"}
			}
		}
	}
	q := c.AST.Steps[1].Q
	if msg := s.check(q); msg != "" {
		if len(c.Strs) == 0 {
			c.Strs = s.reused
		}
		return msg
	}
	// non-trivial: some sub-expression selects a proper non-empty subset
	mixed := false
	for _, idx := range s.cache {
		if len(idx) > 0 && len(idx) < len(s.members) {
			mixed = true
		}
	}
	if mixed && len(s.members) >= 2 {
		st.Class("nontrivial")
		st.NonTrivialCase(c.Path+"\x00"+docText+fmt.Sprint(c.UseNumber), func() interface{} {
			return map[string]interface{}{"path": c.Path, "doc": docText, "selections": len(s.cache), "selected": fmt.Sprint(s.cache[gen.RenderQuery(q, gen.Canon)])}
		})
	}
	return ""
}

func init() {
	Register("TestC09_Algebra", checkC09)
}
