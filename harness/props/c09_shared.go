package props

import (
	"fmt"
	"sync"

	"github.com/AsaiYusuke/jsonpath"
	"pgregory.net/rapid"

	"verif/harness/gen"
	"verif/harness/spec"
)

// TestC09_SharedFilter: the Boolean algebra of a filter holds for each call of ONE parsed
// function used by several goroutines at once, each on its own container (drawn for the same
// expression, so the operands' verdicts differ from container to container: all members match
// one operand here, none there). Runs under the race detector; the expected selections come from
// SPEC, computed before the goroutines start.

const ruleC09Shared = "under the race detector: ONE parsed filter $.list[?(expr)] (expr drawn as in TestC09_Algebra: &&, ||, !, comparisons, '$'-rooted and literal operands) shared by 2..6 goroutines, each evaluating it 40..200 times on its own container drawn for the same expression (plus a container where no member has any of the operand members, and the empty container); every result compared with SPEC's selection, computed beforehand without the library. Non-trivial: the expression has a logical operator and >= 2 goroutines expect different selections."

func drawC09Shared(rt *rapid.T) *Case {
	g := gen.NewG(rt, gen.PathOpts{Funcs: gen.Uniform(rt, "funcs", 4) == 0, ReuseFuncs: true, OperandFuncPct: 25, FilterHeavy: true, LogicDepth: 3, FilterDepth: 1})
	q := g.Query(2+gen.Uniform(rt, "depth", 2), 1)
	p := &gen.Path{Root: gen.RootDollar, Steps: []gen.Step{{Kind: gen.KName, Key: "list", Not: gen.NDot}, {Kind: gen.KFilter, Q: q}}}
	c := &Case{Path: gen.Render(p, gen.Canon).Text, AST: p, UseNumber: rapid.Bool().Draw(rt, "usenumber"), Funcs: true}
	n := 2 + gen.Uniform(rt, "goroutines", 5)
	for i := 0; i < n; i++ {
		var root *gen.DNode
		switch gen.Uniform(rt, "dockind", 6) {
		case 0:
			// nothing the expression asks for is there: every '@' operand misses on every member
			root = gen.Obj().Set("list", gen.Arr(gen.Obj().Set("zz9", gen.Num(1)), gen.Obj().Set("zz9", gen.Num(2)), gen.Num(3)))
		case 1:
			root = gen.Obj().Set("list", gen.Arr())
		default:
			cont, atRoot := g.FilterContainer(q, 1+gen.Uniform(rt, "members", 6), gen.Uniform(rt, "asobj", 4) == 0)
			root = gen.Obj().Set("list", cont)
			if atRoot != nil && atRoot.K == gen.DObj {
				root = gen.Merge(atRoot, root)
				root.Set("list", cont)
			}
		}
		c.Docs = append(c.Docs, root)
	}
	c.Ints = []int{40 + gen.Uniform(rt, "iters", 161)}
	return c
}

func checkC09Shared(c *Case, st *Stats) string {
	Pending(c)
	f, err := jsonpath.Parse(c.Path, BuildConfig(nil, true, false))
	if err != nil {
		return fmt.Sprintf("generated path %q was rejected by Parse: %v", c.Path, err)
	}
	iters := c.Ints[0]
	docs := make([]interface{}, len(c.Docs))
	want := make([]string, len(c.Docs))
	for i, d := range c.Docs {
		docs[i] = d.Build(c.UseNumber)
		res := spec.Eval(c.AST, d.Build(c.UseNumber), gen.PureFuncs{})
		switch {
		case res.Unspecified:
			want[i] = ""
		case len(res.Nodes) == 0:
			want[i] = "ERR"
		default:
			want[i] = JSONString(res.Values())
		}
	}
	mismatch := make([]string, len(docs))
	var wg sync.WaitGroup
	start := make(chan struct{})
	for g := range docs {
		g := g
		wg.Add(1)
		go func() {
			defer wg.Done()
			defer func() {
				if r := recover(); r != nil && mismatch[g] == "" {
					mismatch[g] = fmt.Sprintf("goroutine %d panicked: %v", g, r)
				}
			}()
			<-start
			for k := 0; k < iters; k++ {
				got, err := f(docs[g])
				s := "ERR"
				if err == nil {
					s = JSONString(got)
				} else if !DescribeErr(err).IsRuntime() {
					s = "UNDOCUMENTED " + err.Error()
				}
				if want[g] != "" && s != want[g] && mismatch[g] == "" {
					mismatch[g] = fmt.Sprintf("goroutine %d on %s, iteration %d: selected %s, alone (SPEC) %s", g, c.Docs[g].JSON(), k, s, want[g])
				}
			}
		}()
	}
	close(start)
	wg.Wait()
	st.Eval(len(docs) * iters)
	for _, m := range mismatch {
		if m != "" {
			return m
		}
	}
	distinct := map[string]bool{}
	for _, w := range want {
		distinct[w] = true
	}
	q := c.AST.Steps[1].Q
	if (q.Kind == gen.QAnd || q.Kind == gen.QOr || c.Check == "TestC10_SharedCompare") && len(distinct) >= 2 {
		st.Class("nontrivial")
		st.NonTrivialCase(c.Path+fmt.Sprint(want), func() interface{} {
			return map[string]interface{}{"path": c.Path, "goroutines": len(docs), "iterations": iters, "expected_selections": want}
		})
	}
	return ""
}

func init() { Register("TestC09_SharedFilter", checkC09Shared) }
