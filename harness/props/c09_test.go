package props

import "testing"

func TestC09_Algebra(t *testing.T) {
	checkRapid(t, "C09", "TestC09_Algebra", ruleC09, drawC09)
}

func TestC09_SharedFilter(t *testing.T) {
	checkRapid(t, "C09", "TestC09_SharedFilter", ruleC09Shared, drawC09Shared)
}
