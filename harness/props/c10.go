package props

import (
	"fmt"
	"github.com/AsaiYusuke/jsonpath"
	"math"
	"reflect"
	"strings"

	"pgregory.net/rapid"

	"verif/harness/gen"
	"verif/harness/spec"
)

const ruleC10 = "single-comparison filters $.list[?(L op R)] (six operators and regex; operands literal / '@'-path / '$'-path in both orders) over 1..7 members holding every JSON type at the operand path (numbers as integer, fraction, exponent, negative zero and — against literals — alternative spellings such as 1.0, 1e0, 10e-1; strings that look like numbers; bool; null; object; array; missing), each document decoded with and without UseNumber. " +
	"Oracle: (1) SPEC per member (type-strict, missing/mistyped => no match, numbers by value; both-absent == between two paths accepted either way); (2) the selection under json.Number equals the selection under float64; (3) swapping the operands while mirroring the operator selects the same members, in both decodings. " +
	"Non-trivial: members of >=3 JSON types at the operand path and >=1 member matches. Distinct = distinct (filter, document). Every document that has an empty array/object is evaluated once more with nil slices / nil maps in their place and must select the same members."

var c10NumShort = []string{"0", "1", "-1", "1.5", "100", "2", "1e-07", "1e+21", "-0.5", "123456789"}
var c10NumAlt = []string{"1e999", "-1e999", "18446744073709551615", "9223372036854775808", "-9223372036854775809", "123456789012345678901234567890", "9007199254740993", "1.0", "1e0", "10e-1", "1E2", "1e2", "100.0", "-0", "0.0", "0e5", "1.50", "15e-1", "-1.0", "2.0"}
var c10Strs = []string{"1", "a", "", "1.5", "true", "null", "A", "ab", "a/b", "é", "100"}
var c10LitNums = []string{"18446744073709551615", "9223372036854775807", "9223372036854775808", "10000000000000000000", "1", "1.0", "1e0", "+1", "100", "1e2", "-0", "0", "1.5", "-1", "2", "-0.5", "0.5e1"}

func c10Value(rt *rapid.T, label string, altSpellings bool) *gen.DNode {
	switch k := gen.Uniform(rt, label+"kind", 20); {
	case k < 7:
		if altSpellings && gen.Uniform(rt, label+"alt", 3) == 0 {
			return gen.NumText(c10NumAlt[gen.Uniform(rt, label+"altn", len(c10NumAlt))])
		}
		return gen.NumText(c10NumShort[gen.Uniform(rt, label+"num", len(c10NumShort))])
	case k < 11:
		return gen.Str(c10Strs[gen.Uniform(rt, label+"str", len(c10Strs))])
	case k < 13:
		return gen.Bool(gen.Uniform(rt, label+"b", 2) == 0)
	case k < 15:
		return gen.Null()
	case k < 16:
		return gen.Obj()
	case k < 17:
		return gen.Arr()
	case k < 18:
		if gen.Uniform(rt, label+"arr3", 2) == 0 {
			return gen.Arr(gen.NumText("1"), gen.NumText("-1"), gen.NumText("2"))
		}
		return gen.Arr(gen.NumText("1"))
	case k < 19:
		return gen.Obj().Set("a", gen.NumText("1"))
	}
	return nil // missing
}

func drawC10(rt *rapid.T) *Case {
	name := func(k string) gen.Step { return gen.Step{Kind: gen.KName, Key: k, Not: gen.NDot} }
	atV := &gen.Path{Root: gen.RootAt, Steps: []gen.Step{name("v")}}
	atBare := &gen.Path{Root: gen.RootAt}
	atVW := &gen.Path{Root: gen.RootAt, Steps: []gen.Step{name("v"), name("w")}}
	fn := func(n string, agg bool) gen.Step { return gen.Step{Kind: gen.KFunc, Fn: n, Agg: agg} }
	atVfn := &gen.Path{Root: gen.RootAt, Steps: []gen.Step{name("v"), fn("fnan", false)}} // negative numbers become NaN
	atVf2 := &gen.Path{Root: gen.RootAt, Steps: []gen.Step{name("v"), fn("f2", false)}}   // number+1, !bool, errors on strings/containers
	dollarXsCount := &gen.Path{Root: gen.RootDollar, Steps: []gen.Step{name("xs"), fn("g1", true)}}
	// a nested filter inside the operand, then a function: the count of positive elements of @.v
	positive := &gen.Query{Kind: gen.QCmp, Op: ">", A: &gen.Operand{P: &gen.Path{Root: gen.RootAt}}, B: &gen.Operand{IsLit: true, LK: gen.LNum, Num: "0"}}
	atVFiltCount := &gen.Path{Root: gen.RootAt, Steps: []gen.Step{name("v"), {Kind: gen.KFilter, Q: positive}, fn("g1", true)}}
	// ... and a nested filter that reads a root member: the elements of @.v greater than $.x
	aboveX := &gen.Query{Kind: gen.QCmp, Op: ">", A: &gen.Operand{P: &gen.Path{Root: gen.RootAt}}, B: &gen.Operand{P: &gen.Path{Root: gen.RootDollar, Steps: []gen.Step{name("x")}}}}
	atVFiltDollar := &gen.Path{Root: gen.RootAt, Steps: []gen.Step{name("v"), {Kind: gen.KFilter, Q: aboveX}, fn("g1", true)}}
	dollarX := &gen.Path{Root: gen.RootDollar, Steps: []gen.Step{name("x")}}
	dollarY := &gen.Path{Root: gen.RootDollar, Steps: []gen.Step{name("y")}}

	ops6 := []string{"==", "!=", "<", "<=", ">", ">="}
	q := &gen.Query{}
	isRegex := gen.Uniform(rt, "regex", 8) == 0
	var left *gen.Path
	switch k := gen.Uniform(rt, "leftform", 16); {
	case k == 15:
		left = atVFiltDollar
	case k == 14:
		left = atVFiltCount
	case k < 5:
		left = atV
	case k < 7:
		left = atBare
	case k < 8:
		left = atVW
	case k < 10:
		left = dollarX
	case k < 11:
		left = atVfn
	case k < 12:
		left = atVf2
	default:
		left = dollarXsCount
	}
	pathVsPath := false
	if isRegex {
		q.Kind, q.P = gen.QRegex, left
		q.Re = []string{"a", "^1", "^$", "(?i)a", "[0-9]+", "a/b", ".", "^(true|null)$", "^1$", "^a$", `\Aab\z`, "^10$", "1$"}[gen.Uniform(rt, "re", 13)]
	} else {
		q.Kind = gen.QCmp
		q.Op = ops6[gen.Uniform(rt, "op", 6)]
		numeric := q.Op != "==" && q.Op != "!="
		var lit *gen.Operand
		mkLit := func() *gen.Operand {
			k := gen.Uniform(rt, "litkind", 10)
			if numeric || k < 5 {
				return &gen.Operand{IsLit: true, LK: gen.LNum, Num: c10LitNums[gen.Uniform(rt, "litnum", len(c10LitNums))]}
			}
			switch {
			case k < 7:
				return &gen.Operand{IsLit: true, LK: gen.LStr, Str: c10Strs[gen.Uniform(rt, "litstr", len(c10Strs))], SQ: k == 5}
			case k < 9:
				return &gen.Operand{IsLit: true, LK: gen.LBool, Bool: k == 7}
			}
			return &gen.Operand{IsLit: true, LK: gen.LNull}
		}
		lit = mkLit()
		a := &gen.Operand{P: left}
		var b *gen.Operand
		k := gen.Uniform(rt, "rightform", 10)
		if !numeric && (left == atVfn || left == atVf2 || left == dollarXsCount || left == atVFiltCount || left == atVFiltDollar) {
			// == / != between two paths is reflect.DeepEqual: a user function that returns float64
			// next to json.Number document values is outside the property's domain (its quantifier
			// restricts path-vs-path == to identically represented numbers), so function operands
			// meet literals there
			k = 0
		}
		switch {
		case k < 6:
			b = lit
		case k < 8:
			if left.Root == gen.RootDollar {
				b = &gen.Operand{P: dollarY}
			} else {
				b = &gen.Operand{P: dollarX}
			}
			pathVsPath = true
		case k < 9 && left.Root == gen.RootDollar:
			b = &gen.Operand{P: atV}
			pathVsPath = true
		default:
			b = lit
			if gen.Uniform(rt, "litlit", 4) == 0 {
				a = mkLit()
			}
		}
		if gen.Uniform(rt, "order", 2) == 0 {
			a, b = b, a
			q.Op = mirror(q.Op)
		}
		q.A, q.B = a, b
	}
	// document
	alt := !pathVsPath
	n := 1 + gen.Uniform(rt, "members", 7)
	list := gen.Arr()
	asObj := gen.Uniform(rt, "asobj", 4) == 0
	if asObj {
		list = gen.Obj()
	}
	for i := 0; i < n; i++ {
		var m *gen.DNode
		v := c10Value(rt, "v", alt)
		if left == atBare || (q.Kind == gen.QCmp && ((!q.A.IsLit && q.A.P == atBare) || (!q.B.IsLit && q.B.P == atBare))) {
			if v == nil {
				v = gen.Obj().Set("id", gen.Num(float64(100+i)))
			}
			m = v
		} else {
			m = gen.Obj().Set("id", gen.Num(float64(100+i)))
			if v != nil {
				if gen.Uniform(rt, "nest", 6) == 0 {
					v = gen.Obj().Set("w", v)
				}
				m.Set("v", v)
			}
		}
		if asObj {
			list.Set(fmt.Sprintf("k%d", i), m)
		} else {
			list.Kids = append(list.Kids, m)
		}
	}
	root := gen.Obj().Set("list", list)
	if x := c10Value(rt, "x", alt); x != nil {
		root.Set("x", x)
	}
	if y := c10Value(rt, "y", alt); y != nil {
		root.Set("y", y)
	}
	xs := gen.Arr()
	for i, n := 0, gen.Uniform(rt, "nxs", 4); i < n; i++ {
		xs.Kids = append(xs.Kids, gen.NumText("1"))
	}
	root.Set("xs", xs)
	p := &gen.Path{Root: gen.RootDollar, Steps: []gen.Step{name("list"), {Kind: gen.KFilter, Q: q}}}
	return &Case{Path: gen.Render(p, gen.Canon).Text, AST: p, Doc: root}
}

// nilContainers copies a decoded document, writing every empty array/object as a nil slice/map.
func nilContainers(v interface{}) interface{} { return copyContainers(v, true) }

// nonNilContainers copies a value, writing every empty array/object as a non-nil empty one.
func nonNilContainers(v interface{}) interface{} { return copyContainers(v, false) }

func copyContainers(v interface{}, asNil bool) interface{} {
	switch x := v.(type) {
	case []interface{}:
		if len(x) == 0 {
			if asNil {
				return []interface{}(nil)
			}
			return []interface{}{}
		}
		out := make([]interface{}, len(x))
		for i, e := range x {
			out[i] = copyContainers(e, asNil)
		}
		return out
	case map[string]interface{}:
		if len(x) == 0 {
			if asNil {
				return map[string]interface{}(nil)
			}
			return map[string]interface{}{}
		}
		out := make(map[string]interface{}, len(x))
		for k, e := range x {
			out[k] = copyContainers(e, asNil)
		}
		return out
	}
	return v
}

func jsonTypeOf(v interface{}) string {
	switch v.(type) {
	case nil:
		return "null"
	case bool:
		return "bool"
	case string:
		return "string"
	case map[string]interface{}:
		return "object"
	case []interface{}:
		return "array"
	}
	return "number"
}

func checkC10(c *Case, st *Stats) string {
	docText := c.Doc.JSON()
	Journal(c.Check, c.Path, docText, "")
	q := c.AST.Steps[1].Q
	variants := []*gen.Path{c.AST}
	if q.Kind == gen.QCmp {
		m := *q
		m.A, m.B, m.Op = q.B, q.A, mirror(q.Op)
		variants = append(variants, &gen.Path{Root: gen.RootDollar, Steps: []gen.Step{c.AST.Steps[0], {Kind: gen.KFilter, Q: &m}}})
	}
	type outcome struct {
		ids string
		n   int
	}
	var first *outcome
	matched := 0
	for vi, ast := range variants {
		text := gen.Render(ast, gen.Canon).Text
		for _, useNumber := range []bool{false, true} {
			cc := &Case{Path: text, Doc: c.Doc, UseNumber: useNumber, Funcs: true}
			lib := evalLibrary(cc, cc.Document(), false)
			st.Eval(1)
			if lib.parseErr != nil {
				return fmt.Sprintf("generated path %q was rejected by Parse: %v", text, lib.parseErr)
			}
			if lib.err != nil && DescribeErr(lib.err).Type != "ErrorMemberNotExist" {
				return fmt.Sprintf("%q (UseNumber=%v) failed with %v; a comparison must not match, not fail", text, useNumber, lib.err)
			}
			res := spec.Eval(ast, cc.Document(), gen.PureFuncs{})
			if !res.Unspecified {
				want := res.Values()
				if !(len(want) == 0 && len(lib.got) == 0) && !reflect.DeepEqual(lib.got, want) {
					return fmt.Sprintf("%q (UseNumber=%v): selected %s, SPEC selects %s", text, useNumber, JSONString(lib.got), JSONString(want))
				}
			} else {
				st.Class("unspecified(both-absent ==)")
			}
			if msg := c10EditAndEvaluateAgain(cc, ast, text, lib, st); msg != "" {
				return msg
			}
			if strings.Contains(docText, "[]") || strings.Contains(docText, "{}") {
				// the same document as a caller may build it by hand: its empty arrays and objects are nil
				// slices and nil maps (still an array, still an object — never null)
				nl := evalLibrary(cc, nilContainers(cc.Document()), false)
				st.Eval(1)
				st.Class("nil-slices-and-maps-as-empty-containers")
				if nl.parseErr != nil || (nl.err == nil) != (lib.err == nil) || !reflect.DeepEqual(nonNilContainers(nl.got), nonNilContainers(lib.got)) {
					return fmt.Sprintf("%q (UseNumber=%v): selects %s (%v) on the decoded document and %s (%v) on the same document with nil slices/maps as its empty containers", text, useNumber, JSONString(lib.got), lib.err, JSONString(nl.got), nl.err)
				}
			}
			if len(text)%4 == 1 {
				// a comparison is decided on the values, also when the results are handed out as Accessors
				acc := evalLibrary(cc, cc.Document(), true)
				st.Eval(1)
				st.Class("accessor-mode")
				if acc.parseErr != nil || (acc.err == nil) != (lib.err == nil) || len(acc.got) != len(lib.got) {
					return fmt.Sprintf("%q (UseNumber=%v): plain mode selects %s (%v), accessor mode %d values (%v, parse %v)", text, useNumber, JSONString(lib.got), lib.err, len(acc.got), acc.err, acc.parseErr)
				}
				for i, v := range acc.got {
					a, ok := v.(jsonpath.Accessor)
					if !ok || a.Get == nil || !reflect.DeepEqual(a.Get(), lib.got[i]) {
						return fmt.Sprintf("%q (UseNumber=%v): accessor-mode result %d is %s, plain mode selects %s", text, useNumber, i, JSONString(v), JSONString(lib.got[i]))
					}
				}
			}
			// selection identity independent of the number representation: compare as float64-decoded text
			o := &outcome{ids: canonNumbers(lib.got), n: len(lib.got)}
			if first == nil {
				first = o
				matched = o.n
			} else if o.ids != first.ids {
				what := "the two decodings"
				if vi == 1 {
					what = "the operand orders / decodings"
				}
				return fmt.Sprintf("%s disagree: %q (UseNumber=%v) selects %s, the first evaluation selected %s", what, text, useNumber, o.ids, first.ids)
			}
		}
	}
	// non-triviality: JSON types at the operand path
	types := map[string]bool{}
	doc := c.Document().(map[string]interface{})
	collect := func(m interface{}) {
		if mm, ok := m.(map[string]interface{}); ok {
			if v, ok := mm["v"]; ok {
				types[jsonTypeOf(v)] = true
			} else {
				types["missing"] = true
			}
			return
		}
		types[jsonTypeOf(m)] = true
	}
	switch l := doc["list"].(type) {
	case []interface{}:
		for _, m := range l {
			collect(m)
		}
	case map[string]interface{}:
		for _, m := range l {
			collect(m)
		}
	}
	if q.Kind == gen.QCmp {
		st.Class("op:" + q.Op)
	} else {
		st.Class("op:=~")
	}
	if len(types) >= 3 && matched >= 1 {
		st.Class("nontrivial")
		st.NonTrivialCase(c.Path+"\x00"+docText, func() interface{} {
			return map[string]interface{}{"path": c.Path, "doc": docText, "matched_members": matched, "types_at_operand": len(types)}
		})
	}
	return ""
}

// c10EditAndEvaluateAgain: the caller swaps the root members "x" and "y" of the document it holds
// (and reverses the member list) in place, then evaluates the same parsed function again: the
// comparison must see the operands as they are now.
func c10EditAndEvaluateAgain(cc *Case, ast *gen.Path, text string, lib retrieveResult, st *Stats) string {
	if lib.again == nil || len(text)%3 != 0 {
		return ""
	}
	edited := cc.Doc.Clone()
	x, y := edited.Get("x"), edited.Get("y")
	edited.Del("x")
	edited.Del("y")
	if x != nil {
		edited.Set("y", x)
	}
	if y != nil {
		edited.Set("x", y)
	}
	if l := edited.Get("list"); l != nil && l.K == gen.DArr {
		for i, j := 0, len(l.Kids)-1; i < j; i, j = i+1, j-1 {
			l.Kids[i], l.Kids[j] = l.Kids[j], l.Kids[i]
		}
	}
	live := cc.Document()
	if _, err := lib.again(live); err != nil && DescribeErr(err).Type != "ErrorMemberNotExist" {
		return fmt.Sprintf("%q failed with %v", text, err)
	}
	if !transplantInPlace(live, edited.Build(cc.UseNumber)) {
		return ""
	}
	st.Class("edited-in-place-and-evaluated-again")
	got, err := lib.again(live)
	st.Eval(2)
	res := spec.Eval(ast, edited.Build(cc.UseNumber), gen.PureFuncs{})
	if res.Unspecified {
		return ""
	}
	want := res.Values()
	if err != nil && DescribeErr(err).Type != "ErrorMemberNotExist" {
		return fmt.Sprintf("%q failed with %v after the document was edited in place", text, err)
	}
	if !(len(want) == 0 && len(got) == 0) && !reflect.DeepEqual(got, want) {
		return fmt.Sprintf("%q (UseNumber=%v) after the caller swapped $.x and $.y in place (document now %s): selected %s, SPEC selects %s", text, cc.UseNumber, edited.JSON(), JSONString(got), JSONString(want))
	}
	return ""
}

// canonNumbers renders results with every number normalised to its float64 value, so that a
// json.Number selection and a float64 selection of the same members compare equal.
func canonNumbers(v []interface{}) string {
	var norm func(x interface{}) interface{}
	norm = func(x interface{}) interface{} {
		switch t := x.(type) {
		case map[string]interface{}:
			m := map[string]interface{}{}
			for k, c := range t {
				m[k] = norm(c)
			}
			return m
		case []interface{}:
			a := make([]interface{}, len(t))
			for i, c := range t {
				a[i] = norm(c)
			}
			return a
		}
		if f, ok := spec.NumValue(x); ok {
			// a number beyond the float64 range (json.Number only) is the member that the float64
			// decoding holds as the largest finite number
			if math.IsInf(f, 1) {
				f = math.MaxFloat64
			} else if math.IsInf(f, -1) {
				f = -math.MaxFloat64
			}
			return f
		}
		return x
	}
	out := make([]interface{}, len(v))
	for i := range v {
		out[i] = norm(v[i])
	}
	return canon(out)
}

func init() {
	Register("TestC10_Compare", checkC10)
}
