package props

import (
	"pgregory.net/rapid"

	"verif/harness/gen"
)

// TestC10_SharedCompare: a comparison is decided on the operands of THIS call also when the parsed
// function is used by several goroutines at once: one parsed single-comparison filter (the C10
// generator: six operators and regex, literal / '@' / '$' operands in both orders), each goroutine
// on its own document with other operand values and another decoding. Same machinery and oracle as
// TestC09_SharedFilter (SPEC's selection, computed beforehand; race detector).

const ruleC10Shared = "under the race detector: ONE parsed single-comparison filter of the C10 generator shared by 2..6 goroutines, each evaluating it 40..200 times on its own document (the C10 document generator: every JSON type at the operand path, '$'-operands of other values; float64 or json.Number decoding per case); every result compared with SPEC's selection computed beforehand. Non-trivial: >= 2 goroutines expect different selections."

func drawC10Shared(rt *rapid.T) *Case {
	base := drawC10(rt)
	c := &Case{Path: base.Path, AST: base.AST, UseNumber: rapid.Bool().Draw(rt, "usenumber"), Funcs: true}
	c.Docs = append(c.Docs, base.Doc)
	n := 1 + gen.Uniform(rt, "more", 5)
	for i := 0; i < n; i++ {
		// another document for the same filter: members and '$'-operands drawn again
		other := drawC10(rt)
		c.Docs = append(c.Docs, other.Doc)
	}
	c.Ints = []int{40 + gen.Uniform(rt, "iters", 161)}
	return c
}

func init() { Register("TestC10_SharedCompare", checkC09Shared) }
