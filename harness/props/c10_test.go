package props

import "testing"

func TestC10_Compare(t *testing.T) {
	checkRapid(t, "C10", "TestC10_Compare", ruleC10, drawC10)
}
