package props

import "testing"

func TestC10_Compare(t *testing.T) {
	checkRapid(t, "C10", "TestC10_Compare", ruleC10, drawC10)
}

func TestC10_SharedCompare(t *testing.T) {
	checkRapid(t, "C10", "TestC10_SharedCompare", ruleC10Shared, drawC10Shared)
}
