package props

import (
	"fmt"
	"math"
	"reflect"
	"strconv"
	"strings"

	"github.com/AsaiYusuke/jsonpath"
	"pgregory.net/rapid"

	"verif/harness/gen"
	"verif/harness/spec"
)

const ruleC11Ex = "exhaustive: start,end,step in {omitted} U [-7..7] (16^3 forms, two- and three-part spelling) x lengths 0..6, indexes [-8..8] x lengths 0..6, and the boundary cross product {omitted, +-2^31, +-(2^63-1), -2^63, +-len, +-(len+1), 0, +-1}^3 x lengths 0..6; arrays hold their own indexes; oracle = SPEC's Python-slice implementation (pinned to CPython by digest). Non-trivial: selects >=1 element with a non-default bound, or a bound lies outside [-len, len]."
const ruleC11Rnd = "random: arbitrary int64 start/end/step (each possibly omitted), lengths 0..40, slices alone, inside unions and after '..', written with spaces, '+' signs and leading zeros; same oracle."

func arrayOfIndexes(n int) []interface{} {
	a := make([]interface{}, n)
	for i := range a {
		a[i] = float64(i)
	}
	return a
}

func expectIndexes(idx []int, n int) ([]interface{}, string) {
	out := make([]interface{}, len(idx))
	for i, v := range idx {
		if v < 0 || v >= n {
			return nil, fmt.Sprintf("harness: SPEC produced index %d for length %d", v, n)
		}
		out[i] = float64(v)
	}
	return out, ""
}

func optIntText(p *int) string {
	if p == nil {
		return ""
	}
	return strconv.Itoa(*p)
}

// checkC11 evaluates Path (built from Ints/Strs by the drawer) on arrays of every length in
// Ints[0..1] (inclusive) and compares with SPEC. The AST is in c.AST (one step).
func checkC11(c *Case, st *Stats) string {
	f, err := jsonpath.Parse(c.Path)
	if err != nil {
		if DescribeErr(err).Type == "ErrorInvalidArgument" {
			st.Class("parse:out-of-int-range")
			return ""
		}
		return fmt.Sprintf("Parse rejected %q: %v", c.Path, err)
	}
	lo, hi := c.Ints[0], c.Ints[1]
	for n := lo; n <= hi; n++ {
		doc := interface{}(arrayOfIndexes(n))
		wrapDepth := 0
		if len(c.Ints) > 2 {
			wrapDepth = c.Ints[2]
		}
		for i := 0; i < wrapDepth; i++ {
			doc = map[string]interface{}{"w": doc}
		}
		Journal(c.Check, c.Path, fmt.Sprintf("len=%d wrap=%d", n, wrapDepth), "")
		got, rerr := f(doc)
		st.Eval(1)
		res := spec.Eval(c.AST, doc, gen.PureFuncs{})
		want := res.Values()
		if len(want) == 0 {
			if rerr == nil {
				return fmt.Sprintf("length %d: SPEC selects nothing, library returned %s", n, JSONString(got))
			}
			if t := DescribeErr(rerr).Type; t != "ErrorMemberNotExist" {
				return fmt.Sprintf("length %d: expected ErrorMemberNotExist, got %v", n, rerr)
			}
		} else {
			if rerr != nil {
				return fmt.Sprintf("length %d: SPEC selects %s, library failed: %v", n, JSONString(want), rerr)
			}
			if !reflect.DeepEqual(got, want) {
				return fmt.Sprintf("length %d: got %s, want %s", n, JSONString(got), JSONString(want))
			}
		}
		for _, v := range got {
			if fv, ok := v.(float64); !ok || fv < 0 || fv >= float64(n) {
				return fmt.Sprintf("length %d: selected a value outside the array: %v", n, v)
			}
		}
		// non-triviality
		nt := false
		for _, s := range c.AST.Steps[len(c.AST.Steps)-1].Sub {
			for _, b := range []*int{s.Start, s.End} {
				if b != nil && (*b > n || *b < -n) {
					nt = true
				}
			}
			if len(want) > 0 && (s.Start != nil || s.End != nil || s.Step != nil || s.Kind == gen.KIndex) {
				nt = true
			}
			if s.Kind == gen.KIndex && (s.N >= n || s.N < -n) {
				nt = true
			}
		}
		if nt {
			st.NonTrivialCase(c.Path+"\x00"+strconv.Itoa(n)+"\x00"+strconv.Itoa(wrapDepth), func() interface{} {
				return map[string]interface{}{"path": c.Path, "array_length": n, "result": JSONString(got), "error": fmt.Sprint(rerr)}
			})
			st.Class("nontrivial")
		}
		st.Class("results:" + bucket(len(want)))
	}
	return ""
}

var c11Small []*int
var c11Boundary = func() []*int {
	ip := func(v int) *int { return &v }
	return []*int{nil, ip(1 << 31), ip(-(1 << 31)), ip(math.MaxInt64), ip(-math.MaxInt64), ip(math.MinInt64), ip(0), ip(1), ip(-1)}
}()

func init() {
	c11Small = append(c11Small, nil)
	for v := -7; v <= 7; v++ {
		v := v
		c11Small = append(c11Small, &v)
	}
	Register("TestC11_Exhaustive", checkC11)
	Register("TestC11_Random", checkC11)
	Register("TestC11_Chained", checkC01)
}

func sliceCase(s, e, t *int, twoPart bool, lo, hi int) *Case {
	sub := gen.Sub{Kind: gen.KSlice, Start: s, End: e, Step: t, TwoPart: twoPart && t == nil}
	p := &gen.Path{Root: gen.RootDollar, Steps: []gen.Step{{Kind: gen.KSlice, Sub: []gen.Sub{sub}}}}
	return &Case{Path: gen.Render(p, gen.Canon).Text, AST: p, Ints: []int{lo, hi}}
}

// c11Enumeration lists the exhaustive domain; cases carry the length range they cover.
func c11Enumeration() []*Case {
	var out []*Case
	for _, s := range c11Small {
		for _, e := range c11Small {
			for _, t := range c11Small {
				out = append(out, sliceCase(s, e, t, false, 0, 6))
			}
			out = append(out, sliceCase(s, e, nil, true, 0, 6))
		}
	}
	for ix := -8; ix <= 8; ix++ {
		p := &gen.Path{Root: gen.RootDollar, Steps: []gen.Step{{Kind: gen.KIndex, Sub: []gen.Sub{{Kind: gen.KIndex, N: ix}}}}}
		out = append(out, &Case{Path: gen.Render(p, gen.Canon).Text, AST: p, Ints: []int{0, 6}})
	}
	// boundary cross product; +-len and +-(len+1) depend on the length, so one case per length
	for n := 0; n <= 6; n++ {
		ip := func(v int) *int { return &v }
		vals := append(append([]*int{}, c11Boundary...), ip(n), ip(-n), ip(n+1), ip(-n-1))
		for _, s := range vals {
			for _, e := range vals {
				for _, t := range vals {
					out = append(out, sliceCase(s, e, t, false, n, n))
				}
			}
		}
		for _, v := range vals {
			if v == nil {
				continue
			}
			p := &gen.Path{Root: gen.RootDollar, Steps: []gen.Step{{Kind: gen.KIndex, Sub: []gen.Sub{{Kind: gen.KIndex, N: *v}}}}}
			out = append(out, &Case{Path: gen.Render(p, gen.Canon).Text, AST: p, Ints: []int{n, n}})
		}
	}
	return out
}

const ruleC11Chain = "two or three chained subscript steps (index / slice / union, small and extreme bounds) on matrices of 0..9 x 0..9 (and 3-level) arrays whose cells hold distinct numbers, so that the index list of an inner subscript differs from the outer one while the outer one is still being consumed; compared with SPEC exactly like C01. Non-trivial as in C01."

func drawC11Chain(rt *rapid.T) *Case {
	bound := func(label string) *int {
		switch k := gen.Uniform(rt, label+"kind", 10); {
		case k < 3:
			return nil
		case k < 9:
			v := rapid.IntRange(-10, 10).Draw(rt, label)
			return &v
		}
		edges := []int{math.MaxInt64, math.MinInt64, 1 << 31, -(1 << 31)}
		v := edges[gen.Uniform(rt, label+"edge", len(edges))]
		return &v
	}
	mkSub := func() gen.Sub {
		switch gen.Uniform(rt, "subkind", 6) {
		case 0:
			return gen.Sub{Kind: gen.KIndex, N: rapid.IntRange(-9, 9).Draw(rt, "ix")}
		case 1:
			return gen.Sub{Kind: gen.KWild}
		}
		s := gen.Sub{Kind: gen.KSlice, Start: bound("start"), End: bound("end")}
		if gen.Uniform(rt, "two", 3) == 0 {
			s.TwoPart = true
		} else {
			s.Step = bound("step")
		}
		return s
	}
	mkStep := func() gen.Step {
		n := 1
		if gen.Uniform(rt, "union", 3) == 0 {
			n = 2 + gen.Uniform(rt, "nsub", 2)
		}
		st := gen.Step{}
		for i := 0; i < n; i++ {
			st.Sub = append(st.Sub, mkSub())
		}
		onlyWild := true
		for _, s := range st.Sub {
			onlyWild = onlyWild && s.Kind == gen.KWild
		}
		switch {
		case onlyWild && n == 1:
			return gen.Step{Kind: gen.KWild, Not: gen.NSQ}
		case onlyWild:
			st.Sub[0] = gen.Sub{Kind: gen.KIndex, N: 0}
			st.Kind = gen.KUnion
		case n > 1:
			st.Kind = gen.KUnion
		case st.Sub[0].Kind == gen.KIndex:
			st.Kind = gen.KIndex
		default:
			st.Kind = gen.KSlice
		}
		return st
	}
	depth := 2 + gen.Uniform(rt, "depth3", 4)/3
	p := &gen.Path{Root: gen.RootDollar}
	for i := 0; i < depth; i++ {
		p.Steps = append(p.Steps, mkStep())
	}
	dims := make([]int, depth)
	for i := range dims {
		dims[i] = gen.Uniform(rt, "dim", 10)
	}
	var build func(level, base int) *gen.DNode
	build = func(level, base int) *gen.DNode {
		if level == depth {
			return gen.Num(float64(base))
		}
		a := gen.Arr()
		n := dims[level]
		if level > 0 && gen.Uniform(rt, "ragged", 4) == 0 {
			n = gen.Uniform(rt, "raggedlen", 10)
		}
		for i := 0; i < n; i++ {
			a.Kids = append(a.Kids, build(level+1, base*10+i))
		}
		return a
	}
	r := gen.Render(p, gen.RapidStyle{T: rt})
	return &Case{Path: r.Text, AST: p, Texts: r.Steps, Doc: build(0, 1), UseNumber: rapid.Bool().Draw(rt, "usenumber")}
}

func drawC11(rt *rapid.T) *Case {
	g := gen.NewG(rt, gen.PathOpts{})
	bound := func(label string) *int {
		switch k := gen.Uniform(rt, label+"kind", 10); {
		case k < 2:
			return nil
		case k < 5:
			v := rapid.IntRange(-45, 45).Draw(rt, label)
			return &v
		case k < 7:
			v := int(rapid.Int64().Draw(rt, label+"64"))
			return &v
		}
		edges := []int{math.MaxInt64, math.MinInt64, math.MaxInt64 - 1, math.MinInt64 + 1, 1 << 31, -(1 << 31), 1<<31 - 1, 1 << 32, 40, -40, 41, -41, 0}
		v := edges[gen.Uniform(rt, label+"edge", len(edges))]
		return &v
	}
	mk := func() gen.Sub {
		if gen.Uniform(rt, "subkind", 5) == 0 {
			b := bound("index")
			if b == nil {
				z := 0
				b = &z
			}
			return gen.Sub{Kind: gen.KIndex, N: *b}
		}
		s := gen.Sub{Kind: gen.KSlice, Start: bound("start"), End: bound("end")}
		if gen.Uniform(rt, "two", 3) == 0 {
			s.TwoPart = true
		} else {
			s.Step = bound("step")
		}
		return s
	}
	nsub := 1
	if gen.Uniform(rt, "union", 4) == 0 {
		nsub = 2 + gen.Uniform(rt, "nsub", 2)
	}
	st := gen.Step{}
	for i := 0; i < nsub; i++ {
		st.Sub = append(st.Sub, mk())
	}
	switch {
	case nsub > 1:
		st.Kind = gen.KUnion
	case st.Sub[0].Kind == gen.KIndex:
		st.Kind = gen.KIndex
	default:
		st.Kind = gen.KSlice
	}
	wrap := 0
	if gen.Uniform(rt, "rec", 4) == 0 {
		st.Rec = true
		wrap = gen.Uniform(rt, "wrap", 3)
	}
	p := &gen.Path{Root: gen.RootDollar, Steps: []gen.Step{st}}
	_ = g
	text := gen.Render(p, gen.RapidStyle{T: rt}).Text
	n := rapid.IntRange(0, 40).Draw(rt, "len")
	return &Case{Path: text, AST: p, Ints: []int{n, n, wrap}, Strs: []string{strings.TrimSpace(text)}}
}
