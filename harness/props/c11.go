package props

import (
	"fmt"
	"hash/fnv"
	"math"
	"reflect"
	"strconv"
	"strings"
	"sync"

	"github.com/AsaiYusuke/jsonpath"
	"pgregory.net/rapid"

	"verif/harness/gen"
	"verif/harness/spec"
)

const ruleC11Ex = "exhaustive: start,end,step in {omitted} U [-7..7] (16^3 forms, two- and three-part spelling) x lengths 0..6, indexes [-8..8] x lengths 0..6, and the boundary cross product {omitted, +-2^31, +-(2^63-1), -2^63, +-len, +-(len+1), 0, +-1}^3 x lengths 0..6; arrays hold their own indexes; oracle = SPEC's Python-slice implementation (pinned to CPython by digest). Non-trivial: selects >=1 element with a non-default bound, or a bound lies outside [-len, len]."
const ruleC11Rnd = "random: arbitrary int64 start/end/step (each possibly omitted), lengths 0..40, slices alone, inside unions and after '..', written with spaces, '+' signs and leading zeros; same oracle."

func arrayOfIndexes(n int) []interface{} {
	a := make([]interface{}, n)
	for i := range a {
		a[i] = float64(i)
	}
	return a
}

func expectIndexes(idx []int, n int) ([]interface{}, string) {
	out := make([]interface{}, len(idx))
	for i, v := range idx {
		if v < 0 || v >= n {
			return nil, fmt.Sprintf("harness: SPEC produced index %d for length %d", v, n)
		}
		out[i] = float64(v)
	}
	return out, ""
}

func optIntText(p *int) string {
	if p == nil {
		return ""
	}
	return strconv.Itoa(*p)
}

// checkC11 evaluates Path (built from Ints/Strs by the drawer) on arrays of every length in
// Ints[0..1] (inclusive) and compares with SPEC. The AST is in c.AST (one step).
func checkC11(c *Case, st *Stats) string {
	f, err := jsonpath.Parse(c.Path)
	if err != nil {
		if DescribeErr(err).Type == "ErrorInvalidArgument" {
			st.Class("parse:out-of-int-range")
			return ""
		}
		return fmt.Sprintf("Parse rejected %q: %v", c.Path, err)
	}
	lo, hi := c.Ints[0], c.Ints[1]
	for n := lo; n <= hi; n++ {
		doc := interface{}(arrayOfIndexes(n))
		wrapDepth := 0
		if len(c.Ints) > 2 {
			wrapDepth = c.Ints[2]
		}
		for i := 0; i < wrapDepth; i++ {
			doc = map[string]interface{}{"w": doc}
		}
		Journal(c.Check, c.Path, fmt.Sprintf("len=%d wrap=%d", n, wrapDepth), "")
		snap := takeSnapshot(doc)
		got, rerr := f(doc)
		st.Eval(1)
		// a second retrieval on the same document, then the same slice again: the selection is a
		// function of (bounds, length) only, and the array itself is never written
		_, _ = jsonpath.Retrieve("$..*", doc)
		got2, rerr2 := f(doc)
		if d := snap.diff(doc); d != "" {
			return fmt.Sprintf("length %d: the array was modified: %s", n, d)
		}
		if !sameOutcome(got, rerr, got2, rerr2) {
			return fmt.Sprintf("length %d: second evaluation on the same array gives (%s, %v), the first gave (%s, %v)", n, JSONString(got2), rerr2, JSONString(got), rerr)
		}
		res := spec.Eval(c.AST, doc, gen.PureFuncs{})
		want := res.Values()
		if len(want) == 0 {
			if rerr == nil {
				return fmt.Sprintf("length %d: SPEC selects nothing, library returned %s", n, JSONString(got))
			}
			if t := DescribeErr(rerr).Type; t != "ErrorMemberNotExist" {
				return fmt.Sprintf("length %d: expected ErrorMemberNotExist, got %v", n, rerr)
			}
		} else {
			if rerr != nil {
				return fmt.Sprintf("length %d: SPEC selects %s, library failed: %v", n, JSONString(want), rerr)
			}
			if !reflect.DeepEqual(got, want) {
				return fmt.Sprintf("length %d: got %s, want %s", n, JSONString(got), JSONString(want))
			}
		}
		for _, v := range got {
			if fv, ok := v.(float64); !ok || fv < 0 || fv >= float64(n) {
				return fmt.Sprintf("length %d: selected a value outside the array: %v", n, v)
			}
		}
		if (n+len(c.Path))%3 == 0 {
			// the same subscripts in accessor mode, and with a user function right behind them: the
			// selection (every index, duplicates kept, in order) is the same
			var acfg jsonpath.Config
			acfg.SetAccessorMode()
			ga, ea := jsonpath.Retrieve(c.Path, doc, acfg)
			gf, ef := jsonpath.Retrieve(strings.TrimRight(c.Path, " ")+".f1()", doc, BuildConfig(nil, true, false))
			st.Eval(2)
			if (ea == nil) != (rerr == nil) || len(ga) != len(got) || (ef == nil) != (rerr == nil) || len(gf) != len(got) {
				return fmt.Sprintf("length %d: plain mode selects %s (%v); accessor mode %d values (%v); followed by a filter function %s (%v)", n, JSONString(got), rerr, len(ga), ea, JSONString(gf), ef)
			}
			for i := range got {
				a, ok := ga[i].(jsonpath.Accessor)
				if !ok || a.Get == nil || !reflect.DeepEqual(a.Get(), got[i]) {
					return fmt.Sprintf("length %d: accessor %d is %s, plain mode selects %s", n, i, JSONString(ga[i]), JSONString(got[i]))
				}
				if !reflect.DeepEqual(gf[i], []interface{}{"f1", got[i]}) {
					return fmt.Sprintf("length %d: followed by .f1(), result %d is %s, expected the function applied to %s", n, i, JSONString(gf[i]), JSONString(got[i]))
				}
			}
			st.Class("accessor-mode-and-function-context")
			// ... and with an aggregate function behind them, on an array of arrays: what the aggregate
			// is handed follows from the selection (SPEC), also when exactly one element is selected
			if wrapDepth == 0 {
				rows := make([]interface{}, n)
				for i := range rows {
					rows[i] = []interface{}{float64(i), float64(i), float64(i)}
				}
				withAgg := &gen.Path{Root: c.AST.Root, Steps: append(append([]gen.Step(nil), c.AST.Steps...), gen.Step{Kind: gen.KFunc, Fn: "g1", Agg: true})}
				wantAgg := spec.Eval(withAgg, interface{}(rows), gen.PureFuncs{})
				gotAgg, errAgg := jsonpath.Retrieve(strings.TrimRight(c.Path, " ")+".g1()", interface{}(rows), BuildConfig(nil, true, false))
				st.Eval(1)
				if (len(wantAgg.Nodes) == 0) != (errAgg != nil) || (errAgg == nil && !reflect.DeepEqual(gotAgg, wantAgg.Values())) {
					return fmt.Sprintf("length %d: followed by the aggregate .g1() on an array of %d three-element arrays: (%s, %v), SPEC %s", n, n, JSONString(gotAgg), errAgg, JSONString(wantAgg.Values()))
				}
			}
		}
		// non-triviality
		nt := false
		for _, s := range c.AST.Steps[len(c.AST.Steps)-1].Sub {
			for _, b := range []*int{s.Start, s.End} {
				if b != nil && (*b > n || *b < -n) {
					nt = true
				}
			}
			if len(want) > 0 && (s.Start != nil || s.End != nil || s.Step != nil || s.Kind == gen.KIndex) {
				nt = true
			}
			if s.Kind == gen.KIndex && (s.N >= n || s.N < -n) {
				nt = true
			}
		}
		if nt {
			st.NonTrivialCase(c.Path+"\x00"+strconv.Itoa(n)+"\x00"+strconv.Itoa(wrapDepth), func() interface{} {
				return map[string]interface{}{"path": c.Path, "array_length": n, "result": JSONString(got), "error": fmt.Sprint(rerr)}
			})
			st.Class("nontrivial")
		}
		st.Class("results:" + bucket(len(want)))
	}
	return ""
}

var c11Small []*int
var c11Boundary = func() []*int {
	ip := func(v int) *int { return &v }
	return []*int{nil, ip(1 << 31), ip(-(1 << 31)), ip(math.MaxInt64), ip(-math.MaxInt64), ip(math.MinInt64), ip(0), ip(1), ip(-1)}
}()

func init() {
	c11Small = append(c11Small, nil)
	for v := -7; v <= 7; v++ {
		v := v
		c11Small = append(c11Small, &v)
	}
	Register("TestC11_Exhaustive", checkC11)
	Register("TestC11_Random", checkC11)
	Register("TestC11_Chained", checkC11Chained)
	Register("TestC11_SharedSlice", checkC11Shared)
}

func sliceCase(s, e, t *int, twoPart bool, lo, hi int) *Case {
	sub := gen.Sub{Kind: gen.KSlice, Start: s, End: e, Step: t, TwoPart: twoPart && t == nil}
	p := &gen.Path{Root: gen.RootDollar, Steps: []gen.Step{{Kind: gen.KSlice, Sub: []gen.Sub{sub}}}}
	return &Case{Path: gen.Render(p, gen.Canon).Text, AST: p, Ints: []int{lo, hi}}
}

// c11Enumeration lists the exhaustive domain; cases carry the length range they cover.
func c11Enumeration() []*Case {
	var out []*Case
	for _, s := range c11Small {
		for _, e := range c11Small {
			for _, t := range c11Small {
				out = append(out, sliceCase(s, e, t, false, 0, 6))
			}
			out = append(out, sliceCase(s, e, nil, true, 0, 6))
		}
	}
	for ix := -8; ix <= 8; ix++ {
		p := &gen.Path{Root: gen.RootDollar, Steps: []gen.Step{{Kind: gen.KIndex, Sub: []gen.Sub{{Kind: gen.KIndex, N: ix}}}}}
		out = append(out, &Case{Path: gen.Render(p, gen.Canon).Text, AST: p, Ints: []int{0, 6}})
	}
	// boundary cross product; +-len and +-(len+1) depend on the length, so one case per length
	for n := 0; n <= 6; n++ {
		ip := func(v int) *int { return &v }
		vals := append(append([]*int{}, c11Boundary...), ip(n), ip(-n), ip(n+1), ip(-n-1))
		for _, s := range vals {
			for _, e := range vals {
				for _, t := range vals {
					out = append(out, sliceCase(s, e, t, false, n, n))
				}
			}
		}
		for _, v := range vals {
			if v == nil {
				continue
			}
			p := &gen.Path{Root: gen.RootDollar, Steps: []gen.Step{{Kind: gen.KIndex, Sub: []gen.Sub{{Kind: gen.KIndex, N: *v}}}}}
			out = append(out, &Case{Path: gen.Render(p, gen.Canon).Text, AST: p, Ints: []int{n, n}})
		}
	}
	return out
}

const ruleC11Chain = "two or three chained subscript steps (index / slice / union, small and extreme bounds) on matrices of 0..9 x 0..9 (and 3-level) arrays whose cells hold distinct numbers, so that the index list of an inner subscript differs from the outer one while the outer one is still being consumed; one case in four places a single subscript step in context instead: followed by a name step at top level or after '..', or inside an '@' / '$' filter operand followed by a name step, over rows of which only some have the member; compared with SPEC exactly like C01. Non-trivial as in C01."

func drawC11Chain(rt *rapid.T) *Case {
	bound := func(label string) *int {
		switch k := gen.Uniform(rt, label+"kind", 10); {
		case k < 3:
			return nil
		case k < 9:
			v := rapid.IntRange(-10, 10).Draw(rt, label)
			return &v
		}
		edges := []int{math.MaxInt64, math.MinInt64, 1 << 31, -(1 << 31)}
		v := edges[gen.Uniform(rt, label+"edge", len(edges))]
		return &v
	}
	mkSub := func() gen.Sub {
		switch gen.Uniform(rt, "subkind", 6) {
		case 0:
			return gen.Sub{Kind: gen.KIndex, N: rapid.IntRange(-9, 9).Draw(rt, "ix")}
		case 1:
			return gen.Sub{Kind: gen.KWild}
		}
		s := gen.Sub{Kind: gen.KSlice, Start: bound("start"), End: bound("end")}
		if gen.Uniform(rt, "two", 3) == 0 {
			s.TwoPart = true
		} else {
			s.Step = bound("step")
		}
		return s
	}
	mkStep := func() gen.Step {
		n := 1
		if gen.Uniform(rt, "union", 3) == 0 {
			n = 2 + gen.Uniform(rt, "nsub", 2)
		}
		st := gen.Step{}
		for i := 0; i < n; i++ {
			st.Sub = append(st.Sub, mkSub())
		}
		onlyWild := true
		for _, s := range st.Sub {
			onlyWild = onlyWild && s.Kind == gen.KWild
		}
		switch {
		case onlyWild && n == 1:
			return gen.Step{Kind: gen.KWild, Not: gen.NSQ}
		case onlyWild:
			st.Sub[0] = gen.Sub{Kind: gen.KIndex, N: 0}
			st.Kind = gen.KUnion
		case n > 1:
			st.Kind = gen.KUnion
		case st.Sub[0].Kind == gen.KIndex:
			st.Kind = gen.KIndex
		default:
			st.Kind = gen.KSlice
		}
		return st
	}
	if gen.Uniform(rt, "context", 4) == 0 {
		// the subscript step in another position of a path: followed by a name step (top level, and
		// after '..'), or inside a filter operand ("@" or "$") followed by a name or index step; the
		// rows are objects of which only some have the member, so WHICH elements the subscript
		// selects decides the result
		sub := mkStep()
		name := gen.Step{Kind: gen.KName, Key: "k", Not: gen.NDot}
		rowsN := gen.Uniform(rt, "rows", 10)
		mkRow := func(i int) *gen.DNode {
			if gen.Uniform(rt, "hask", 2) == 0 {
				return gen.Obj().Set("k", gen.Num(float64(100+i)))
			}
			return gen.Obj().Set("j", gen.Num(float64(200+i)))
		}
		mkRows := func(base int) *gen.DNode {
			a := gen.Arr()
			n := rowsN
			if gen.Uniform(rt, "ragged", 3) == 0 {
				n = gen.Uniform(rt, "raggedlen", 10)
			}
			for i := 0; i < n; i++ {
				a.Kids = append(a.Kids, mkRow(base*10+i))
			}
			return a
		}
		var p *gen.Path
		var doc *gen.DNode
		switch gen.Uniform(rt, "where", 5) {
		case 4: // $[?(@<sub>)]: the subscripts alone decide whether a row is kept
			if gen.Uniform(rt, "zerostep", 4) == 0 {
				zero := 0
				for i := range sub.Sub {
					if sub.Sub[i].Kind == gen.KSlice {
						sub.Sub[i].Step, sub.Sub[i].TwoPart = &zero, false
					}
				}
			}
			q := &gen.Query{Kind: gen.QExists, P: &gen.Path{Root: gen.RootAt, Steps: []gen.Step{sub}}}
			q.Not = gen.Uniform(rt, "neg", 4) == 0
			p = &gen.Path{Root: gen.RootDollar, Steps: []gen.Step{{Kind: gen.KFilter, Q: q}}}
			doc = gen.Arr()
			for i := 0; i < 1+gen.Uniform(rt, "outer", 6); i++ {
				doc.Kids = append(doc.Kids, mkRows(i+1))
			}
			doc.Kids = append(doc.Kids, gen.Arr(), gen.Num(7))
		case 0: // $<sub>.k
			p = &gen.Path{Root: gen.RootDollar, Steps: []gen.Step{sub, name}}
			doc = mkRows(1)
		case 1: // $..<sub>.k
			sub.Rec = true
			p = &gen.Path{Root: gen.RootDollar, Steps: []gen.Step{sub, name}}
			doc = gen.Obj().Set("x", mkRows(1)).Set("y", gen.Arr(mkRows(2)))
		case 2: // $[?(@<sub>.k)] on an array of row arrays
			q := &gen.Query{Kind: gen.QExists, P: &gen.Path{Root: gen.RootAt, Steps: []gen.Step{sub, name}}}
			q.Not = gen.Uniform(rt, "neg", 4) == 0
			p = &gen.Path{Root: gen.RootDollar, Steps: []gen.Step{{Kind: gen.KFilter, Q: q}}}
			doc = gen.Arr()
			for i := 0; i < 1+gen.Uniform(rt, "outer", 6); i++ {
				doc.Kids = append(doc.Kids, mkRows(i+1))
			}
		default: // $.rows[?($.rows<sub>.k)]: all or nothing
			rows := gen.Step{Kind: gen.KName, Key: "rows", Not: gen.NDot}
			q := &gen.Query{Kind: gen.QExists, P: &gen.Path{Root: gen.RootDollar, Steps: []gen.Step{rows, sub, name}}}
			p = &gen.Path{Root: gen.RootDollar, Steps: []gen.Step{rows, {Kind: gen.KFilter, Q: q}}}
			doc = gen.Obj().Set("rows", mkRows(1))
		}
		r := gen.Render(p, gen.RapidStyle{T: rt})
		return &Case{Path: r.Text, AST: p, Texts: r.Steps, Doc: doc, UseNumber: rapid.Bool().Draw(rt, "usenumber")}
	}
	depth := 2 + gen.Uniform(rt, "depth3", 4)/3
	p := &gen.Path{Root: gen.RootDollar}
	for i := 0; i < depth; i++ {
		p.Steps = append(p.Steps, mkStep())
	}
	dims := make([]int, depth)
	for i := range dims {
		dims[i] = gen.Uniform(rt, "dim", 10)
	}
	var build func(level, base int) *gen.DNode
	build = func(level, base int) *gen.DNode {
		if level == depth {
			return gen.Num(float64(base))
		}
		a := gen.Arr()
		n := dims[level]
		if level > 0 && gen.Uniform(rt, "ragged", 4) == 0 {
			n = gen.Uniform(rt, "raggedlen", 10)
		}
		for i := 0; i < n; i++ {
			a.Kids = append(a.Kids, build(level+1, base*10+i))
		}
		return a
	}
	r := gen.Render(p, gen.RapidStyle{T: rt})
	return &Case{Path: r.Text, AST: p, Texts: r.Steps, Doc: build(0, 1), UseNumber: rapid.Bool().Draw(rt, "usenumber")}
}

// checkC11Chained: C01's comparison with SPEC, then two more retrievals on ONE document (another
// subscript path in between) which must agree with the first and leave the document unchanged.
func checkC11Chained(c *Case, st *Stats) string {
	if msg := checkC01(c, st); msg != "" {
		return msg
	}
	f, err := jsonpath.Parse(c.Path)
	if err != nil {
		return ""
	}
	doc := c.Document()
	snap := takeSnapshot(doc)
	got1, err1 := f(doc)
	_, _ = jsonpath.Retrieve("$[*][0:1]", doc)
	_, _ = jsonpath.Retrieve("$[0][1]", doc)
	got2, err2 := f(doc)
	st.Eval(4)
	if d := snap.diff(doc); d != "" {
		return "the document was modified by subscript retrievals: " + d
	}
	if !sameOutcome(got1, err1, got2, err2) {
		return fmt.Sprintf("the same path on the same document gives (%s, %v) and then (%s, %v)", JSONString(got1), err1, JSONString(got2), err2)
	}
	// the same values held differently: one container referenced from two places and one array that
	// is a window of another array's storage (`head := all[:k]`). A subscript selects by position in
	// the array it is applied to, wherever that array's elements live.
	h := fnv.New64a()
	h.Write([]byte(c.Path))
	h.Write([]byte(c.Doc.JSON()))
	seed := h.Sum64()
	// (one of the two per case: applied together they could make a container its own descendant)
	held, heldSpec := c.Document(), c.Document()
	if seed&1 == 0 {
		held, heldSpec = gen.ShareSubtrees(held, seed), gen.ShareSubtrees(heldSpec, seed)
	} else {
		held, heldSpec = gen.OverlapSlices(held, seed>>7), gen.OverlapSlices(heldSpec, seed>>7)
	}
	got3, err3 := f(held)
	st.Eval(1)
	res := spec.Eval(c.AST, heldSpec, gen.PureFuncs{})
	if !res.Unspecified {
		what := "document with a shared container or an array that is a window of another (" + JSONString(heldSpec) + ")"
		switch {
		case len(res.Nodes) == 0 && err3 == nil:
			return fmt.Sprintf("%s: SPEC selects nothing but the library returned %s", what, JSONString(got3))
		case len(res.Nodes) > 0 && err3 != nil:
			return fmt.Sprintf("%s: SPEC selects %s but the library failed: %v", what, JSONString(res.Values()), err3)
		case len(res.Nodes) > 0 && !reflect.DeepEqual(got3, res.Values()):
			return fmt.Sprintf("%s: result differs from SPEC:\n   got  %s\n   want %s", what, JSONString(got3), JSONString(res.Values()))
		}
	}
	return ""
}

const ruleC11Shared = "under the race detector: ONE parsed index/slice/union path shared by 2..6 goroutines, each evaluating it 50..300 times on its own array of a different length (0..40); every result compared with SPEC's Python-slice model (computed beforehand, without the library). The selection must be a function of (bounds, length) whoever else is using the parsed path. Non-trivial: >=2 different lengths and >=1 non-empty selection."

func drawC11Shared(rt *rapid.T) *Case {
	c := drawC11(rt)
	c.Ints = nil
	n := 2 + gen.Uniform(rt, "goroutines", 5)
	for i := 0; i < n; i++ {
		c.Ints = append(c.Ints, rapid.IntRange(0, 40).Draw(rt, "len"))
	}
	c.Ints = append(c.Ints, 50+gen.Uniform(rt, "iters", 251))
	c.AST.Steps[0].Rec = false
	c.Path = gen.Render(c.AST, gen.Canon).Text
	return c
}

func checkC11Shared(c *Case, st *Stats) string {
	Pending(c)
	f, err := jsonpath.Parse(c.Path)
	if err != nil {
		if DescribeErr(err).Type == "ErrorInvalidArgument" {
			return ""
		}
		return fmt.Sprintf("Parse rejected %q: %v", c.Path, err)
	}
	lens, iters := c.Ints[:len(c.Ints)-1], c.Ints[len(c.Ints)-1]
	docs := make([]interface{}, len(lens))
	want := make([]string, len(lens))
	nonEmpty := false
	for i, n := range lens {
		docs[i] = interface{}(arrayOfIndexes(n))
		res := spec.Eval(c.AST, docs[i], gen.PureFuncs{})
		want[i] = "ERR"
		if len(res.Nodes) > 0 {
			want[i] = JSONString(res.Values())
			nonEmpty = true
		}
	}
	mismatch := make([]string, len(lens))
	var wg sync.WaitGroup
	start := make(chan struct{})
	for g := range lens {
		g := g
		wg.Add(1)
		go func() {
			defer wg.Done()
			defer func() {
				if r := recover(); r != nil && mismatch[g] == "" {
					mismatch[g] = fmt.Sprintf("goroutine %d (length %d) panicked: %v", g, lens[g], r)
				}
			}()
			<-start
			for k := 0; k < iters; k++ {
				got, err := f(docs[g])
				s := "ERR"
				if err == nil {
					s = JSONString(got)
				}
				if s != want[g] && mismatch[g] == "" {
					mismatch[g] = fmt.Sprintf("goroutine %d, array length %d, iteration %d: got %s, want %s", g, lens[g], k, s, want[g])
				}
			}
		}()
	}
	close(start)
	wg.Wait()
	st.Eval(len(lens) * iters)
	for _, m := range mismatch {
		if m != "" {
			return m
		}
	}
	distinct := map[int]bool{}
	for _, n := range lens {
		distinct[n] = true
	}
	if len(distinct) >= 2 && nonEmpty {
		st.Class("nontrivial")
		st.NonTrivialCase(c.Path+fmt.Sprint(lens), func() interface{} {
			return map[string]interface{}{"path": c.Path, "array_lengths": lens, "iterations": iters, "expected": want}
		})
	}
	return ""
}

func drawC11(rt *rapid.T) *Case {
	g := gen.NewG(rt, gen.PathOpts{})
	n := rapid.IntRange(0, 40).Draw(rt, "len")
	if gen.Uniform(rt, "long", 8) == 0 {
		// long arrays: lengths around the powers of two where buffers and tables are typically sized
		longs := []int{63, 64, 65, 127, 128, 129, 255, 256, 257, 258, 300, 511, 512, 513, 1000, 1023, 1024, 1025, 2049}
		n = longs[gen.Uniform(rt, "longlen", len(longs))]
	}
	bound := func(label string) *int {
		switch k := gen.Uniform(rt, label+"kind", 10); {
		case k < 2:
			return nil
		case k < 5:
			v := rapid.IntRange(-45, 45).Draw(rt, label)
			return &v
		case k < 7:
			v := int(rapid.Int64().Draw(rt, label+"64"))
			return &v
		}
		edges := []int{math.MaxInt64, math.MinInt64, math.MaxInt64 - 1, math.MinInt64 + 1, 1 << 31, -(1 << 31), 1<<31 - 1, 1 << 32, 40, -40, 41, -41, 0,
			n, -n, n + 1, -n - 1, n - 1, 1 - n, n / 2, -(n / 2), n - 10, 10 - n, 256, -256, 255, 257}
		v := edges[gen.Uniform(rt, label+"edge", len(edges))]
		return &v
	}
	mk := func() gen.Sub {
		if gen.Uniform(rt, "subkind", 5) == 0 {
			b := bound("index")
			if b == nil {
				z := 0
				b = &z
			}
			return gen.Sub{Kind: gen.KIndex, N: *b}
		}
		s := gen.Sub{Kind: gen.KSlice, Start: bound("start"), End: bound("end")}
		if gen.Uniform(rt, "two", 3) == 0 {
			s.TwoPart = true
		} else {
			s.Step = bound("step")
		}
		return s
	}
	nsub := 1
	if gen.Uniform(rt, "union", 4) == 0 {
		nsub = 2 + gen.Uniform(rt, "nsub", 2)
	}
	st := gen.Step{}
	for i := 0; i < nsub; i++ {
		st.Sub = append(st.Sub, mk())
	}
	switch {
	case nsub > 1:
		st.Kind = gen.KUnion
	case st.Sub[0].Kind == gen.KIndex:
		st.Kind = gen.KIndex
	default:
		st.Kind = gen.KSlice
	}
	wrap := 0
	if gen.Uniform(rt, "rec", 4) == 0 {
		st.Rec = true
		wrap = gen.Uniform(rt, "wrap", 3)
	}
	p := &gen.Path{Root: gen.RootDollar, Steps: []gen.Step{st}}
	_ = g
	text := gen.Render(p, gen.RapidStyle{T: rt}).Text
	return &Case{Path: text, AST: p, Ints: []int{n, n, wrap}, Strs: []string{strings.TrimSpace(text)}}
}
