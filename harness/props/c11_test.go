package props

import "testing"

func TestC11_Exhaustive(t *testing.T) {
	cases := c11Enumeration()
	runEnumerated(t, "C11", "TestC11_Exhaustive", ruleC11Ex, len(cases), func(i int) *Case { return cases[i] })
}

func TestC11_Chained(t *testing.T) {
	checkRapid(t, "C11", "TestC11_Chained", ruleC11Chain, drawC11Chain)
}

func TestC11_SharedSlice(t *testing.T) {
	checkRapid(t, "C11", "TestC11_SharedSlice", ruleC11Shared, drawC11Shared)
}

func TestC11_Random(t *testing.T) {
	checkRapid(t, "C11", "TestC11_Random", ruleC11Rnd, drawC11)
}
