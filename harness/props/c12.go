package props

import (
	"fmt"
	"reflect"
	"strings"

	"github.com/AsaiYusuke/jsonpath"
	"pgregory.net/rapid"

	"verif/harness/gen"
)

const ruleC12 = "C01 paths with functions after every step kind and inside filter operands, each evaluated once without and once with accessor mode on separately decoded copies of the document, with identical recording function sets. " +
	"Oracle: same length, every accessor-mode element is an Accessor whose Get() deep-equals the plain element, same error type and text, identical function call logs, and no Accessor anywhere inside a function argument; the same again with the accessor-mode Config made by copying the plain Config value and calling SetAccessorMode on the copy (the original stays plain). " +
	"Non-trivial: the path has a function or filter and returns >=1 result. Distinct = distinct (path, document, mode)."

func drawC12(rt *rapid.T) *Case {
	g := gen.NewG(rt, gen.PathOpts{Funcs: true, RootOmit: true, FuncPct: 50, OperandFuncPct: 35, LongPaths: true})
	p := g.Path()
	r := gen.Render(p, gen.Canon)
	c := &Case{Path: r.Text, AST: p, Texts: r.Steps, Doc: g.Doc(p), UseNumber: rapid.Bool().Draw(rt, "usenumber"), Funcs: true}
	switch gen.Uniform(rt, "dockind", 16) {
	case 0:
		// values that are not decoded JSON inside the document
		c.Doc = g.Opaquify(c.Doc)
		c.DocKind = "opaque"
	case 1:
		// the whole document handed over behind a pointer, inside an Accessor, as raw JSON text:
		// not a JSON value in either mode
		c.Doc = gen.Wrap(gen.WrapTags[gen.Uniform(rt, "rootwrap", len(gen.WrapTags))], c.Doc)
		c.DocKind = "opaque"
	}
	return c
}

// otherLeaves replaces every scalar leaf of a decoded document (in place; the caller passes a
// private copy) by a value that occurs nowhere else.
func otherLeaves(v interface{}) interface{} {
	n := 0
	var walk func(v interface{}) interface{}
	walk = func(v interface{}) interface{} {
		switch t := v.(type) {
		case map[string]interface{}:
			for k, c := range t {
				t[k] = walk(c)
			}
			return t
		case []interface{}:
			for i, c := range t {
				t[i] = walk(c)
			}
			return t
		}
		n++
		return fmt.Sprintf("other-document-%d", n)
	}
	return walk(v)
}

func containsAccessor(v interface{}) bool {
	switch t := v.(type) {
	case jsonpath.Accessor, *jsonpath.Accessor:
		return true
	case map[string]interface{}:
		for _, c := range t {
			if containsAccessor(c) {
				return true
			}
		}
	case []interface{}:
		for _, c := range t {
			if containsAccessor(c) {
				return true
			}
		}
	}
	return false
}

func checkC12(c *Case, st *Stats) string {
	docText := c.Doc.JSON()
	Journal(c.Check, c.Path, docText, flagString(c))
	plain := evalLibrary(c, c.Document(), false)
	acc := evalLibrary(c, c.Document(), true)
	st.Eval(2)
	if (plain.parseErr == nil) != (acc.parseErr == nil) {
		return fmt.Sprintf("Parse outcome depends on accessor mode: plain %v, accessor %v", plain.parseErr, acc.parseErr)
	}
	if plain.parseErr != nil {
		return fmt.Sprintf("generated path was rejected by Parse: %v", plain.parseErr)
	}
	docHoldsAccessors := strings.Contains(docText, "Accessor") // then Accessor values are data, not a leak
	if c.DocKind == "opaque" {
		st.Class("doc:opaque-values")
	}
	for _, rc := range acc.rec.Calls {
		if !docHoldsAccessors && containsAccessor(rc.Arg) {
			return fmt.Sprintf("in accessor mode function %s received an Accessor inside its argument %s", rc.Fn, JSONString(rc.Arg))
		}
	}
	if (plain.err == nil) != (acc.err == nil) {
		return fmt.Sprintf("plain mode: (%s, %v); accessor mode: (%s, %v)", JSONString(plain.got), plain.err, JSONString(acc.got), acc.err)
	}
	if plain.err != nil {
		if reflect.TypeOf(plain.err) != reflect.TypeOf(acc.err) || plain.err.Error() != acc.err.Error() {
			return fmt.Sprintf("different errors: plain %T %v, accessor %T %v", plain.err, plain.err, acc.err, acc.err)
		}
	} else {
		if len(plain.got) != len(acc.got) {
			return fmt.Sprintf("plain mode returns %d values, accessor mode %d", len(plain.got), len(acc.got))
		}
		for i := range acc.got {
			a, ok := acc.got[i].(jsonpath.Accessor)
			if !ok {
				return fmt.Sprintf("accessor-mode result %d is %T, not an Accessor", i, acc.got[i])
			}
			if a.Get == nil {
				return fmt.Sprintf("accessor %d has a nil Get", i)
			}
			if v := a.Get(); !deepSame(v, plain.got[i]) {
				return fmt.Sprintf("accessor %d Get() = %s, plain mode value = %s", i, JSONString(v), JSONString(plain.got[i]))
			}
		}
		if acc.again != nil && len(acc.got) > 0 {
			// the accessors stay what they are when the same parsed function is called again
			logged, errs := len(acc.rec.Calls), acc.rec.Errs
			_, _ = acc.again(otherLeaves(c.Document()))                // same shape, every scalar replaced
			acc.rec.Calls, acc.rec.Errs = acc.rec.Calls[:logged], errs // the second call is not part of the comparison below
			st.Eval(1)
			for i := range acc.got {
				if v := acc.got[i].(jsonpath.Accessor).Get(); !deepSame(v, plain.got[i]) {
					return fmt.Sprintf("after the same accessor-mode function was called once more, accessor %d of the FIRST call leads to %s (was %s)", i, JSONString(v), JSONString(plain.got[i]))
				}
			}
			st.Class("accessors-kept-across-a-second-call")
		}
		for i := range plain.got {
			if !docHoldsAccessors && containsAccessor(plain.got[i]) {
				return fmt.Sprintf("plain-mode result %d contains an Accessor", i)
			}
		}
	}
	sameLogs := len(plain.rec.Calls) == len(acc.rec.Calls)
	for i := 0; sameLogs && i < len(plain.rec.Calls); i++ {
		a, b := plain.rec.Calls[i], acc.rec.Calls[i]
		sameLogs = a.Fn == b.Fn && a.Err == b.Err && deepSame(a.Arg, b.Arg) // deepSame: NaN is the same argument as NaN
	}
	if !sameLogs {
		return fmt.Sprintf("function call logs differ between the modes:\n   plain    %s\n   accessor %s", callLogString(plain.rec), callLogString(acc.rec))
	}
	// The accessor-mode Config derived from the plain one, as a program would write it
	// (derived := base; derived.SetAccessorMode()): the mode belongs to the derived value only.
	{
		base := BuildConfig(nil, true, false)
		derived := base
		derived.SetAccessorMode()
		fd, errD := jsonpath.Parse(c.Path, derived)
		fb, errB := jsonpath.Parse(c.Path, base)
		noteParse(c.Path, true, true)
		noteParse(c.Path, true, false)
		st.Class("config derived by copy")
		if errD != nil || errB != nil {
			return fmt.Sprintf("Parse with a Config copied from another fails: base %v, derived %v", errB, errD)
		}
		gotB, eB := fb(c.Document())
		gotD, eD := fd(c.Document())
		st.Eval(2)
		if (eB == nil) != (plain.err == nil) || (eD == nil) != (plain.err == nil) {
			return fmt.Sprintf("Config copied from another: base (%s, %v), derived accessor (%s, %v), independent plain (%s, %v)", JSONString(gotB), eB, JSONString(gotD), eD, JSONString(plain.got), plain.err)
		}
		for i := range gotB {
			if !docHoldsAccessors && containsAccessor(gotB[i]) {
				return fmt.Sprintf("SetAccessorMode on a copy of a Config switched the original to accessor mode: result %d of the original is %T", i, gotB[i])
			}
		}
		if eB == nil && !deepSameList(gotB, plain.got) {
			return fmt.Sprintf("the Config an accessor-mode copy was made from returns %s, an independent plain Config %s", JSONString(gotB), JSONString(plain.got))
		}
		for i := range gotD {
			if _, ok := gotD[i].(jsonpath.Accessor); !ok {
				return fmt.Sprintf("accessor mode set on a copy of a Config: result %d is %T, not an Accessor", i, gotD[i])
			}
		}
		if eD == nil && len(gotD) != len(plain.got) {
			return fmt.Sprintf("accessor mode set on a copy of a Config: %d results, plain mode %d", len(gotD), len(plain.got))
		}
	}
	// Several Configs in one call: the first one counts (its accessor mode too, whatever the later ones say or leave unsaid)
	if len(c.Path)%2 == 1 {
		plainCfg, accCfg := BuildConfig(nil, true, false), BuildConfig(nil, true, true)
		var empty jsonpath.Config
		for shape, cfgs := range [][]jsonpath.Config{{accCfg, plainCfg}, {accCfg, empty}, {plainCfg, accCfg}} {
			got, err := jsonpath.Retrieve(c.Path, c.Document(), cfgs...)
			st.Eval(1)
			if (err == nil) != (plain.err == nil) || len(got) != len(plain.got) {
				return fmt.Sprintf("Retrieve with two Configs (shape %d): (%d values, %v), with one Config (%d values, %v)", shape, len(got), err, len(plain.got), plain.err)
			}
			for i := range got {
				_, isAcc := got[i].(jsonpath.Accessor)
				if wantAcc := shape < 2; isAcc != wantAcc && !docHoldsAccessors {
					return fmt.Sprintf("Retrieve with two Configs (shape %d: accessor mode set on the first = %v): result %d is %T", shape, wantAcc, i, got[i])
				}
			}
		}
		st.Class("two-configs-in-one-call")
	}
	// The mode of a parsed function is the mode of the Config it was parsed with, at that time: a
	// caller that keeps its Configs in a slice (Parse(path, configs...)) and changes an element
	// afterwards does not change functions it parsed before.
	if len(c.Path)%2 == 0 {
		cfgs := []jsonpath.Config{BuildConfig(nil, true, false)}
		fp, errP := jsonpath.Parse(c.Path, cfgs...)
		cfgs[0].SetAccessorMode()
		fa2, errA := jsonpath.Parse(c.Path, cfgs...)
		noteParse(c.Path, true, false)
		noteParse(c.Path, true, true)
		st.Class("config slice changed after Parse")
		if errP != nil || errA != nil {
			return fmt.Sprintf("Parse with a spread Config slice fails: %v / %v", errP, errA)
		}
		gotP, eP := fp(c.Document())
		cfgs[0] = jsonpath.Config{}
		gotA, eA := fa2(c.Document())
		st.Eval(2)
		if (eP == nil) != (plain.err == nil) || (eA == nil) != (plain.err == nil) {
			return fmt.Sprintf("Config slice changed after Parse: plain-parsed (%s, %v), accessor-parsed (%d values, %v), reference (%s, %v)", JSONString(gotP), eP, len(gotA), eA, JSONString(plain.got), plain.err)
		}
		if eP == nil {
			if !docHoldsAccessors {
				for i := range gotP {
					if containsAccessor(gotP[i]) {
						return fmt.Sprintf("a function parsed in plain mode returns Accessors after SetAccessorMode was called on the caller's Config slice element: result %d is %T", i, gotP[i])
					}
				}
			}
			if len(gotA) != len(plain.got) {
				return fmt.Sprintf("a function parsed in accessor mode returns %d results, plain mode %d", len(gotA), len(plain.got))
			}
			for i := range gotA {
				if _, ok := gotA[i].(jsonpath.Accessor); !ok {
					return fmt.Sprintf("a function parsed in accessor mode returns plain values after the caller reset its Config slice element: result %d is %T", i, gotA[i])
				}
			}
		}
	}
	if !c.AST.HasFunc() {
		bad := BuildConfigOrder(nil, true, true, true)
		_, _ = jsonpath.Parse(poisonPaths[len(c.Path)%len(poisonPaths)], bad)
		noteParse(poisonPaths[len(c.Path)%len(poisonPaths)], true, true)
		got, err := jsonpath.Retrieve(c.Path, c.Document())
		noteParse(c.Path, false, false)
		st.Eval(1)
		st.Class("config-less call after a failed accessor-mode parse")
		if (err == nil) != (plain.err == nil) || (err == nil && !deepSameList(got, plain.got)) {
			return fmt.Sprintf("a call without Config right after a failed accessor-mode Parse returns (%s, %v), plain mode gives (%s, %v)", JSONString(got), err, JSONString(plain.got), plain.err)
		}
	}
	classifyPath(st, c.AST)
	funcAfterGroup := false
	for i := range c.AST.Steps {
		if c.AST.Steps[i].Kind == gen.KFunc && i > 0 && c.AST.Steps[i-1].IsGroupStep() {
			funcAfterGroup = true
		}
	}
	if funcAfterGroup {
		st.Class("function-after-group-step")
	}
	if (c.AST.HasFunc() || c.AST.HasFilter()) && len(plain.got) > 0 {
		st.Class("nontrivial")
		st.NonTrivialCase(c.Path+"\x00"+docText+fmt.Sprint(c.UseNumber), func() interface{} {
			return map[string]interface{}{"path": c.Path, "doc": docText, "results": len(plain.got), "calls": len(plain.rec.Calls)}
		})
	}
	return ""
}

func deepSameList(a, b []interface{}) bool {
	if len(a) != len(b) {
		return false
	}
	for i := range a {
		if !deepSame(a[i], b[i]) {
			return false
		}
	}
	return true
}

func callLogString(r *Recorder) string {
	s := ""
	for i, c := range r.Calls {
		if i > 0 {
			s += " "
		}
		s += c.Fn + "(" + JSONString(c.Arg) + ")"
	}
	return s
}

func init() {
	Register("TestC12_Parity", checkC12)
	mk := func(path string, steps []gen.Step, doc *gen.DNode) {
		AddSeed("TestC12_Parity", &Case{Path: path, AST: &gen.Path{Steps: steps}, Doc: doc, Funcs: true})
	}
	ab := gen.Obj().Set("a", gen.Num(1)).Set("b", gen.Num(2))
	mk("$['a','b'].g1()", []gen.Step{{Kind: gen.KMulti, Ent: []gen.MultiEntry{{Key: "a"}, {Key: "b"}}}, {Kind: gen.KFunc, Fn: "g1", Agg: true}}, ab)
	mk("$[*,*].g2()", []gen.Step{{Kind: gen.KMulti, Ent: []gen.MultiEntry{{Wild: true}, {Wild: true}}}, {Kind: gen.KFunc, Fn: "g2", Agg: true}}, gen.Arr(gen.Num(1)))
	mk("$[*,*].f1()", []gen.Step{{Kind: gen.KMulti, Ent: []gen.MultiEntry{{Wild: true}, {Wild: true}}}, {Kind: gen.KFunc, Fn: "f1"}}, ab)
}
