package props

import "testing"

func TestC12_Parity(t *testing.T) {
	checkRapid(t, "C12", "TestC12_Parity", ruleC12, drawC12)
}
