package props

import (
	"fmt"
	"reflect"

	"github.com/AsaiYusuke/jsonpath"
	"pgregory.net/rapid"

	"verif/harness/gen"
	"verif/harness/spec"
)

const ruleC13 = "C01 paths (mostly without functions; with functions for the Set == nil clause) on documents whose leaves are pairwise distinct; for every accessor index i (all when <= 6 results, else first/last/4 drawn): a fresh decode, Set(sentinel) through accessor i (the sentinel is a string, a number, null, an object, an array, an EMPTY non-nil array or object, or a container holding empty containers and null), then diff against a deep copy of the original with exactly SPEC's predicted location replaced; Get() returns the sentinel; a direct in-place update of the slot is visible through Get(). " +
	"Then a drawn history (<= 10 operations) of Set-through-accessor / direct-update on one document, checked after every step against a shadow copy (accessors below an overwritten location are retired, as README says). " +
	"Set == nil <=> the result is not a location (root, function output). Non-trivial: >= 2 accessors at different locations (or a duplicated location) at depth >= 2. Distinct = distinct (path, document, mode)."

func drawC13(rt *rapid.T) *Case {
	funcs := gen.Uniform(rt, "withfuncs", 5) == 0
	g := gen.NewG(rt, gen.PathOpts{Funcs: funcs, RootOmit: true, FuncPct: 40, LongPaths: true})
	p := g.Path()
	r := gen.Render(p, gen.Canon)
	d := gen.DistinctLeaves(g.Doc(p))
	c := &Case{Path: r.Text, AST: p, Texts: r.Steps, Doc: d, UseNumber: rapid.Bool().Draw(rt, "usenumber"), Funcs: funcs}
	if gen.Uniform(rt, "shared", 14) == 0 {
		// one container reachable by two paths: every path to it is a location of its own
		c.DocKind = "shared"
		c.Ints = append(c.Ints, 1+int(rapid.Uint32().Draw(rt, "shareseed")))
		return c
	}
	if gen.Uniform(rt, "opaque", 12) == 0 {
		// a document holding values that are not decoded JSON (typed maps and slices, pointers,
		// Accessors ...): no accessor may lead into them
		c.Doc = g.Opaquify(d)
		c.DocKind = "opaque"
		return c
	}
	// indices to probe when there are many results, and the history
	for i := 0; i < 4; i++ {
		c.Ints = append(c.Ints, rapid.IntRange(0, 1000).Draw(rt, "probe"))
	}
	n := gen.Uniform(rt, "nops", 11)
	for i := 0; i < n; i++ {
		kind := "set"
		if gen.Uniform(rt, "opkind", 3) == 0 {
			kind = "direct"
		}
		c.Ops = append(c.Ops, Op{Kind: kind, A: rapid.IntRange(0, 1000).Draw(rt, "target"), B: gen.Uniform(rt, "valuekind", 4)})
	}
	return c
}

func getAt(doc interface{}, loc []interface{}) (interface{}, bool) {
	cur := doc
	for _, k := range loc {
		switch key := k.(type) {
		case string:
			m, ok := cur.(map[string]interface{})
			if !ok {
				return nil, false
			}
			v, ok := m[key]
			if !ok {
				return nil, false
			}
			cur = v
		case int:
			a, ok := cur.([]interface{})
			if !ok || key < 0 || key >= len(a) {
				return nil, false
			}
			cur = a[key]
		}
	}
	return cur, true
}

// setAt writes v at loc (len(loc) >= 1) in place.
func setAt(doc interface{}, loc []interface{}, v interface{}) bool {
	parent, ok := getAt(doc, loc[:len(loc)-1])
	if !ok {
		return false
	}
	switch key := loc[len(loc)-1].(type) {
	case string:
		m, ok := parent.(map[string]interface{})
		if !ok {
			return false
		}
		m[key] = v
	case int:
		a, ok := parent.([]interface{})
		if !ok || key < 0 || key >= len(a) {
			return false
		}
		a[key] = v
	}
	return true
}

func locString(loc []interface{}) string {
	s := "$"
	for _, k := range loc {
		switch key := k.(type) {
		case string:
			s += fmt.Sprintf("[%q]", key)
		case int:
			s += fmt.Sprintf("[%d]", key)
		}
	}
	return s
}

func isPrefix(a, b []interface{}) bool { // a is a strict prefix of b
	if len(a) >= len(b) {
		return false
	}
	for i := range a {
		if a[i] != b[i] {
			return false
		}
	}
	return true
}

func accessorsOf(c *Case, doc interface{}) ([]jsonpath.Accessor, error, string) {
	res := evalLibrary(c, doc, true)
	if res.parseErr != nil {
		return nil, nil, fmt.Sprintf("generated path was rejected by Parse: %v", res.parseErr)
	}
	if res.err != nil {
		return nil, res.err, ""
	}
	out := make([]jsonpath.Accessor, len(res.got))
	for i, v := range res.got {
		a, ok := v.(jsonpath.Accessor)
		if !ok {
			return nil, nil, fmt.Sprintf("accessor-mode result %d is %T, not an Accessor", i, v)
		}
		out[i] = a
	}
	return out, nil, ""
}

func checkC13(c *Case, st *Stats) string {
	docText := c.Doc.JSON()
	Journal(c.Check, c.Path, docText, flagString(c)+" accessor=true")
	original := c.Document()
	res := spec.Eval(c.AST, c.Document(), gen.PureFuncs{})
	if res.Unspecified {
		st.Class("unspecified")
		return ""
	}
	if c.DocKind == "opaque" {
		st.Class("doc:opaque-values")
		return accessorModeAgainstSpec(c, res, st)
	}
	if c.DocKind == "shared" && len(c.Ints) > 0 {
		st.Class("doc:shared-subtree")
		seed := uint64(c.Ints[len(c.Ints)-1])
		res = spec.Eval(c.AST, gen.ShareSubtrees(c.Document(), seed), gen.PureFuncs{})
		if res.Unspecified {
			return ""
		}
		return accessorModeOnDoc(c, gen.ShareSubtrees(c.Document(), seed), res, st)
	}
	firstDoc := c.Document()
	accs, rerr, msg := accessorsOf(c, firstDoc)
	st.Eval(1)
	if msg != "" {
		return msg
	}
	if rerr != nil {
		st.Class("outcome:error")
		if len(res.Nodes) != 0 {
			return fmt.Sprintf("SPEC selects %d values but accessor mode failed: %v", len(res.Nodes), rerr)
		}
		return ""
	}
	if len(accs) != len(res.Nodes) {
		return fmt.Sprintf("accessor mode returned %d accessors, SPEC selects %d values", len(accs), len(res.Nodes))
	}
	n := len(accs)
	st.Class("outcome:accessors")
	// which indexes to probe
	var probe []int
	if n <= 6 {
		for i := 0; i < n; i++ {
			probe = append(probe, i)
		}
	} else {
		probe = []int{0, n - 1}
		for _, r := range c.Ints {
			probe = append(probe, r%n)
		}
	}
	for _, i := range probe {
		node := res.Nodes[i]
		doc := c.Document()
		as, err, msg := accessorsOf(c, doc)
		st.Eval(1)
		if msg != "" || err != nil || len(as) != n {
			return fmt.Sprintf("re-evaluation on a fresh copy differs: %s %v (%d accessors, expected %d)", msg, err, len(as), n)
		}
		a := as[i]
		if a.Get == nil {
			return fmt.Sprintf("accessor %d has a nil Get", i)
		}
		if !reflect.DeepEqual(a.Get(), node.V) {
			return fmt.Sprintf("accessor %d Get() = %s, SPEC value %s", i, JSONString(a.Get()), JSONString(node.V))
		}
		if !node.HasLoc {
			st.Class("set:nil-expected")
			if a.Set != nil {
				return fmt.Sprintf("accessor %d is not a location of the document (root or function output) but its Set is not nil", i)
			}
			continue
		}
		if a.Set == nil {
			return fmt.Sprintf("accessor %d is the document location %s but its Set is nil", i, locString(node.Loc))
		}
		st.Class("set:location")
		// liveness before Set: a direct update of the slot is visible
		live := fmt.Sprintf("LIVE-%d", i)
		if !setAt(doc, node.Loc, live) {
			return "harness: SPEC location " + locString(node.Loc) + " does not exist in the document"
		}
		if got := a.Get(); got != live {
			return fmt.Sprintf("after a direct update of %s, accessor %d Get() = %s, want %q", locString(node.Loc), i, JSONString(got), live)
		}
		// what is Set varies: scalars, null, containers, EMPTY containers (non-nil, as json.Unmarshal
		// makes them) alone and inside other containers - the location must hold exactly that
		sentinel := interface{}(fmt.Sprintf("SENTINEL-%d", i))
		switch (i + len(c.Path)) % 8 {
		case 1:
			sentinel = map[string]interface{}{"sentinel": float64(i)}
		case 2:
			sentinel = map[string]interface{}{"sentinel": float64(i), "empty": []interface{}{}, "none": nil, "obj": map[string]interface{}{}}
		case 3:
			sentinel = []interface{}{}
		case 4:
			sentinel = nil
		case 5:
			sentinel = []interface{}{float64(i), []interface{}{}, map[string]interface{}{}}
		case 6:
			sentinel = float64(i) + 0.5
		case 7:
			sentinel = map[string]interface{}{}
		}
		st.Class(fmt.Sprintf("set:value-kind-%d", (i+len(c.Path))%8))
		a.Set(sentinel)
		expected := gen.DeepCopy(original)
		setAt(expected, node.Loc, sentinel)
		if !reflect.DeepEqual(doc, expected) {
			return fmt.Sprintf("Set through accessor %d (SPEC location %s): document is\n   %s\nexpected\n   %s", i, locString(node.Loc), JSONString(doc), JSONString(expected))
		}
		if got := a.Get(); !reflect.DeepEqual(got, sentinel) {
			return fmt.Sprintf("after Set, accessor %d Get() = %s, want %s", i, JSONString(got), JSONString(sentinel))
		}
		// liveness after Set
		after := fmt.Sprintf("AFTER-%d", i)
		setAt(doc, node.Loc, after)
		if got := a.Get(); got != after {
			return fmt.Sprintf("after Set and a direct update, accessor %d Get() = %s, want %q", i, JSONString(got), after)
		}
	}
	// the accessors of the very first retrieval must still be bound to their own document after
	// all the accessor-mode retrievals made since (their targets must not live in recycled storage)
	if other, err := jsonpath.Retrieve("$..*", c.Document(), BuildConfig(nil, false, true)); err == nil {
		_ = other
	}
	for i, a := range accs {
		if want, ok := getAt(firstDoc, res.Nodes[i].Loc); ok && res.Nodes[i].HasLoc {
			if got := a.Get(); !reflect.DeepEqual(got, want) {
				return fmt.Sprintf("after later accessor-mode retrievals, accessor %d of the first retrieval (%s) Get() = %s, its document holds %s", i, locString(res.Nodes[i].Loc), JSONString(got), JSONString(want))
			}
		}
	}
	if n > 0 && res.Nodes[0].HasLoc && accs[0].Set != nil {
		accs[0].Set("LATE-SET")
		if got, _ := getAt(firstDoc, res.Nodes[0].Loc); got != "LATE-SET" {
			return fmt.Sprintf("after later accessor-mode retrievals, Set through accessor 0 of the first retrieval did not write %s of its own document (it holds %s)", locString(res.Nodes[0].Loc), JSONString(got))
		}
	}
	// history on one document
	if n > 0 && len(c.Ops) > 0 {
		doc := c.Document()
		shadow := gen.DeepCopy(original)
		as, err, msg := accessorsOf(c, doc)
		st.Eval(1)
		if msg != "" || err != nil || len(as) != n {
			return fmt.Sprintf("re-evaluation on a fresh copy differs: %s %v", msg, err)
		}
		retired := make([]bool, n)
		for step, op := range c.Ops {
			i := op.A % n
			node := res.Nodes[i]
			if !node.HasLoc || retired[i] {
				continue
			}
			var v interface{}
			switch op.B {
			case 0:
				v = fmt.Sprintf("H%d", step)
			case 1:
				v = float64(step) + 0.5
			case 2:
				v = nil
			default:
				v = []interface{}{fmt.Sprintf("H%d", step)}
			}
			if step%3 == 1 {
				// an unrelated accessor-mode retrieval in between recycles the library's pooled storage
				_, _ = jsonpath.Retrieve("$..*", c.Document(), BuildConfig(nil, false, true))
			}
			if op.Kind == "set" {
				as[i].Set(v)
			} else {
				// a direct update needs the slot's parent to be still attached: it is, unless an
				// ancestor was overwritten, in which case the accessor is retired already
				if !setAt(doc, node.Loc, v) {
					continue
				}
			}
			setAt(shadow, node.Loc, v)
			st.Class("history:" + op.Kind)
			for j := range as {
				if isPrefix(node.Loc, res.Nodes[j].Loc) {
					retired[j] = true // README: structure changed above it
				}
			}
			if !reflect.DeepEqual(doc, shadow) {
				return fmt.Sprintf("history step %d (%s via result %d at %s): document is\n   %s\nexpected\n   %s", step, op.Kind, i, locString(node.Loc), JSONString(doc), JSONString(shadow))
			}
			for j := range as {
				if retired[j] || !res.Nodes[j].HasLoc {
					continue
				}
				want, ok := getAt(shadow, res.Nodes[j].Loc)
				if !ok {
					continue
				}
				if got := as[j].Get(); !reflect.DeepEqual(got, want) {
					return fmt.Sprintf("history step %d: accessor %d (%s) Get() = %s, want %s", step, j, locString(res.Nodes[j].Loc), JSONString(got), JSONString(want))
				}
			}
		}
	}
	// non-triviality
	locs := map[string]int{}
	deep := false
	for _, nd := range res.Nodes {
		if nd.HasLoc {
			locs[locString(nd.Loc)]++
			if len(nd.Loc) >= 2 {
				deep = true
			}
		}
	}
	dup := false
	for _, k := range locs {
		if k > 1 {
			dup = true
		}
	}
	if deep && (len(locs) >= 2 || dup) {
		st.Class("nontrivial")
		if dup {
			st.Class("nontrivial:duplicate-location")
		}
		st.NonTrivialCase(c.Path+"\x00"+docText+fmt.Sprint(c.UseNumber), func() interface{} {
			ls := []string{}
			for _, nd := range res.Nodes {
				if nd.HasLoc {
					ls = append(ls, locString(nd.Loc))
				} else {
					ls = append(ls, "(not a location)")
				}
			}
			return map[string]interface{}{"path": c.Path, "doc": docText, "locations": ls, "history": c.Ops}
		})
	}
	return ""
}

func init() {
	Register("TestC13_Set", checkC13)
}
