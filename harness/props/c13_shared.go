package props

import (
	"fmt"
	"sync"

	"github.com/AsaiYusuke/jsonpath"
	"pgregory.net/rapid"

	"verif/harness/gen"
	"verif/harness/spec"
)

// TestC13_SharedAccessors: accessors lead to the selected locations of THEIR call's document also
// when the accessor-mode function is used by several goroutines at once: one parsed
// index/slice/union path, each goroutine on its own array (of its own length, holding its own
// values); every accessor's Get() must be SPEC's value, Set must write SPEC's location of that
// goroutine's array and nothing else. Runs under the race detector.

const ruleC13Shared = "under the race detector: ONE accessor-mode parsed index/slice/union path (the C11 generator) shared by 2..6 goroutines, each evaluating it 30..150 times on its own array of a different length (0..40) whose element i is 1000*g+i; every accessor's Get() is compared with SPEC's value, Set(sentinel) through a drawn accessor must change exactly SPEC's index of that goroutine's array (checked, then restored). Non-trivial: >= 2 different lengths and >= 1 non-empty selection."

func drawC13Shared(rt *rapid.T) *Case { return drawC11Shared(rt) }

func checkC13Shared(c *Case, st *Stats) string {
	Pending(c)
	var cfg jsonpath.Config
	cfg.SetAccessorMode()
	f, err := jsonpath.Parse(c.Path, cfg)
	if err != nil {
		if DescribeErr(err).Type == "ErrorInvalidArgument" {
			return ""
		}
		return fmt.Sprintf("Parse rejected %q: %v", c.Path, err)
	}
	lens, iters := c.Ints[:len(c.Ints)-1], c.Ints[len(c.Ints)-1]
	if iters > 150 {
		iters = 150
	}
	docs := make([][]interface{}, len(lens))
	want := make([][]int, len(lens)) // expected indexes per goroutine (nil: nothing selected)
	nonEmpty := false
	for g, n := range lens {
		docs[g] = make([]interface{}, n)
		for i := range docs[g] {
			docs[g][i] = float64(1000*g + i)
		}
		res := spec.Eval(c.AST, interface{}(arrayOfIndexes(n)), gen.PureFuncs{})
		for _, nd := range res.Nodes {
			if idx, ok := nd.V.(float64); ok {
				want[g] = append(want[g], int(idx))
			}
		}
		if len(want[g]) > 0 {
			nonEmpty = true
		}
	}
	mismatch := make([]string, len(lens))
	var wg sync.WaitGroup
	start := make(chan struct{})
	for g := range lens {
		g := g
		wg.Add(1)
		go func() {
			defer wg.Done()
			defer func() {
				if r := recover(); r != nil && mismatch[g] == "" {
					mismatch[g] = fmt.Sprintf("goroutine %d (length %d) panicked: %v", g, lens[g], r)
				}
			}()
			<-start
			fail := func(format string, args ...interface{}) {
				if mismatch[g] == "" {
					mismatch[g] = fmt.Sprintf("goroutine %d, array length %d: ", g, lens[g]) + fmt.Sprintf(format, args...)
				}
			}
			for k := 0; k < iters && mismatch[g] == ""; k++ {
				got, err := f(interface{}(docs[g]))
				if len(want[g]) == 0 {
					if err == nil {
						fail("iteration %d: nothing is selected but %d accessors came back", k, len(got))
					}
					continue
				}
				if err != nil || len(got) != len(want[g]) {
					fail("iteration %d: %d accessors (%v), expected %d", k, len(got), err, len(want[g]))
					continue
				}
				for i, v := range got {
					a, ok := v.(jsonpath.Accessor)
					if !ok || a.Get == nil || a.Set == nil {
						fail("iteration %d: result %d is %T or lacks Get/Set", k, i, v)
						break
					}
					if x := a.Get(); x != float64(1000*g+want[g][i]) {
						fail("iteration %d: accessor %d leads to %v, expected element %d of this goroutine's array (%v)", k, i, x, want[g][i], float64(1000*g+want[g][i]))
						break
					}
				}
				if mismatch[g] != "" {
					break
				}
				// write through one accessor: exactly SPEC's index of THIS array changes
				i := k % len(got)
				a := got[i].(jsonpath.Accessor)
				a.Set("WRITTEN")
				for j := range docs[g] {
					expect := interface{}(float64(1000*g + j))
					if j == want[g][i] {
						expect = "WRITTEN"
					}
					if docs[g][j] != expect {
						fail("iteration %d: after Set through accessor %d (index %d), element %d is %v, expected %v", k, i, want[g][i], j, docs[g][j], expect)
						break
					}
				}
				docs[g][want[g][i]] = float64(1000*g + want[g][i])
			}
		}()
	}
	close(start)
	wg.Wait()
	st.Eval(len(lens) * iters)
	for _, m := range mismatch {
		if m != "" {
			return m
		}
	}
	distinct := map[int]bool{}
	for _, n := range lens {
		distinct[n] = true
	}
	if len(distinct) >= 2 && nonEmpty {
		st.Class("nontrivial")
		st.NonTrivialCase(c.Path+fmt.Sprint(lens), func() interface{} {
			return map[string]interface{}{"path": c.Path, "array_lengths": lens, "iterations": iters, "expected_indexes": want}
		})
	}
	return ""
}

func init() { Register("TestC13_SharedAccessors", checkC13Shared) }
