package props

import "testing"

func TestC13_Set(t *testing.T) {
	checkRapid(t, "C13", "TestC13_Set", ruleC13, drawC13)
}
