package props

import "testing"

func TestC13_Set(t *testing.T) {
	checkRapid(t, "C13", "TestC13_Set", ruleC13, drawC13)
}

func TestC13_SharedAccessors(t *testing.T) {
	checkRapid(t, "C13", "TestC13_SharedAccessors", ruleC13Shared, drawC13Shared)
}
