package props

import (
	"fmt"

	"github.com/AsaiYusuke/jsonpath"
	"pgregory.net/rapid"

	"verif/harness/gen"
	"verif/harness/spec"
)

const ruleC14 = "paths of every step-kind sequence (depth<=4) followed by 1..3 functions in every filter/aggregate order, functions inside filter operands, recording functions (each function name occurs once per path, so a name identifies an occurrence); documents where the pre-function path selects 0, 1 or many values, arrays, arrays of arrays. " +
	"Oracle: SPEC's call log per occurrence (filter function: once per selected value, in order, with that value; aggregate: once with all values, or the single array's elements), results = return values chained left to right, ErrorFunctionFailed when only functions failed. " +
	"Non-trivial: >=2 values reach the first function, or an aggregate follows a value-group step that is not the first step. Distinct = distinct (path, document, mode). In accessor mode every result is read twice through Get before the call logs are compared, and what Get returns is compared with the chained return values."

func drawC14(rt *rapid.T) *Case {
	g := gen.NewG(rt, gen.PathOpts{Funcs: true, RootOmit: true, FuncPct: 80, OperandFuncPct: 45, MaxSteps: 4})
	p := g.Path()
	r := gen.Render(p, gen.Canon)
	d := g.Doc(p)
	c := &Case{Path: r.Text, AST: p, Texts: r.Steps, Doc: d, DocKind: g.DocKind, UseNumber: rapid.Bool().Draw(rt, "usenumber"), Funcs: true}
	if gen.Uniform(rt, "opaque", 14) == 0 {
		// values that are not decoded JSON reach the functions as they are (a nil []interface{} is
		// an array without elements)
		c.Doc = g.Opaquify(d)
		c.DocKind = "opaque"
		return c
	}
	if gen.Uniform(rt, "shared", 8) == 0 {
		// one container reachable by two paths (a document built in Go, not decoded): its values are
		// selected once per path that leads to them, and the functions see every one of them
		c.Ints = []int{1 + int(rapid.Uint32().Draw(rt, "shareseed"))}
	}
	return c
}

// c14Document builds the case's document (with shared sub-containers when the case says so).
func c14Document(c *Case) interface{} {
	doc := c.Document()
	if len(c.Ints) > 0 {
		doc = gen.ShareSubtrees(doc, uint64(c.Ints[0]))
	}
	return doc
}

// compareCallLogs compares the recorder's log with SPEC's expected calls.
// dollarOperandFuncs lists the functions written inside "$"-rooted filter operands (at any
// nesting). How often such an operand is evaluated is not pinned (the library evaluates it
// once per filtered container, even an empty one), so unexpected calls of them are tolerated.
func dollarOperandFuncs(p *gen.Path) map[string]bool {
	out := map[string]bool{}
	var mark func(q *gen.Path, inDollar bool)
	var markQuery func(q *gen.Query, inDollar bool)
	mark = func(q *gen.Path, inDollar bool) {
		for i := range q.Steps {
			s := &q.Steps[i]
			if s.Kind == gen.KFunc && inDollar {
				out[s.Fn] = true
			}
			if s.Kind == gen.KFilter {
				markQuery(s.Q, inDollar)
			}
		}
	}
	markQuery = func(q *gen.Query, inDollar bool) {
		if q == nil {
			return
		}
		switch q.Kind {
		case gen.QOr, gen.QAnd:
			markQuery(q.L, inDollar)
			markQuery(q.R, inDollar)
		case gen.QParen:
			markQuery(q.L, inDollar)
		case gen.QExists, gen.QRegex:
			mark(q.P, inDollar || q.P.Root == gen.RootDollar)
		case gen.QCmp:
			for _, o := range []*gen.Operand{q.A, q.B} {
				if !o.IsLit {
					mark(o.P, inDollar || o.P.Root == gen.RootDollar)
				}
			}
		}
	}
	mark(p, false)
	return out
}

func compareCallLogs(rec *Recorder, res *spec.Result, st *Stats, ast *gen.Path) string {
	return compareCallLogsEq(rec, res, st, ast, deepSame)
}

func compareCallLogsEq(rec *Recorder, res *spec.Result, st *Stats, ast *gen.Path, same func(a, b interface{}) bool) string {
	argIn := func(list []interface{}, v interface{}) bool {
		for _, x := range list {
			if same(x, v) {
				return true
			}
		}
		return false
	}
	listSame := func(a, b []interface{}) bool {
		if len(a) != len(b) {
			return false
		}
		for i := range a {
			if !same(a[i], b[i]) {
				return false
			}
		}
		return true
	}
	type exp struct {
		args []interface{}
		ctx  string
		pure bool
	}
	expected := map[string]*exp{}
	for _, c := range res.Calls {
		e := expected[c.Fn]
		if e == nil {
			e = &exp{ctx: c.Ctx, pure: c.Pure}
			expected[c.Fn] = e
		}
		e.pure = e.pure && c.Pure
		e.args = append(e.args, c.Arg)
	}
	actual := rec.ByFn()
	tolerated := dollarOperandFuncs(ast)
	for fn, e := range expected {
		got := actual[fn]
		if tolerated[fn] && e.pure {
			// inside a "$"-rooted operand (possibly nested): multiplicity follows the number of
			// evaluations of that operand, which is not pinned
			e.ctx = "$"
		}
		switch {
		case e.ctx == "main":
			st.Class("calls:main-compared")
			if !listSame(got, e.args) {
				return fmt.Sprintf("function %s was called with %s, expected %s", fn, JSONString(got), JSONString(e.args))
			}
		case e.ctx == "@" && e.pure:
			st.Class("calls:@operand-compared")
			if !listSame(got, e.args) {
				return fmt.Sprintf("operand function %s was called with %s, expected %s", fn, JSONString(got), JSONString(e.args))
			}
		case e.ctx == "$" && e.pure:
			st.Class("calls:$operand-compared")
			if len(got) == 0 {
				return fmt.Sprintf("operand function %s was never called, expected argument %s", fn, JSONString(e.args[0]))
			}
			for _, a := range got {
				if !argIn(e.args, a) {
					return fmt.Sprintf("operand function %s was called with %s, expected one of %s", fn, JSONString(a), JSONString(e.args))
				}
			}
		default:
			st.Class("calls:not-pinned(&&,||)")
		}
	}
	for fn, got := range actual {
		if _, ok := expected[fn]; !ok && len(got) > 0 && !tolerated[fn] {
			// a function SPEC never reaches: allowed only inside && / || (evaluation order is not pinned) —
			// SPEC evaluates both sides of every logical operator, so it reaches a superset.
			return fmt.Sprintf("function %s was called with %s although no value reaches it", fn, JSONString(got))
		}
	}
	return ""
}

func checkC14(c *Case, st *Stats) string {
	docText := c.Doc.JSON()
	Journal(c.Check, c.Path, docText, flagString(c))
	lib := evalLibrary(c, c14Document(c), false)
	st.Eval(1)
	if len(c.Ints) > 0 {
		st.Class("doc:shared-subtree")
	}
	if lib.lateBinding != "" {
		return lib.lateBinding
	}
	if lib.parseErr != nil {
		return fmt.Sprintf("generated path was rejected by Parse: %v", lib.parseErr)
	}
	res := spec.Eval(c.AST, c14Document(c), gen.PureFuncs{})
	if res.Unspecified {
		st.Class("unspecified")
		return ""
	}
	if msg := compareCallLogs(lib.rec, res, st, c.AST); msg != "" {
		return msg
	}
	// the same call protocol holds in accessor mode: functions see plain values
	acc := evalLibrary(c, c14Document(c), true)
	st.Eval(1)
	if acc.parseErr == nil {
		// the caller reads every result through its Accessor, twice: reading is not evaluating — no
		// function is called again, and what Get hands out is the value the one call returned
		var viaGet []interface{}
		reads := 0
		for _, v := range acc.got {
			if a, ok := v.(jsonpath.Accessor); ok && a.Get != nil {
				_ = a.Get()
				v = a.Get()
				reads++
			}
			viaGet = append(viaGet, v)
		}
		if reads > 0 {
			st.Class("accessor-mode:results-read-through-Get")
		}
		if msg := compareCallLogs(acc.rec, res, st, c.AST); msg != "" {
			return "accessor mode (every result read twice through Get): " + msg
		}
		if reads > 0 && lib.err == nil && acc.err == nil && len(res.Nodes) > 0 && deepSameList(lib.got, res.Values()) && !deepSameList(viaGet, res.Values()) {
			return fmt.Sprintf("accessor mode: reading the results through Get gives %s, the chained return values are %s", JSONString(viaGet), JSONString(res.Values()))
		}
	}
	info := DescribeErr(lib.err)
	if len(res.Nodes) > 0 {
		if lib.err != nil {
			return fmt.Sprintf("SPEC selects %s but the library failed: %v", JSONString(res.Values()), lib.err)
		}
		if !deepSameList(lib.got, res.Values()) {
			return fmt.Sprintf("result differs from the chained return values:\n   got  %s\n   want %s", JSONString(lib.got), JSONString(res.Values()))
		}
		st.Class("outcome:values")
	} else {
		if lib.err == nil {
			return fmt.Sprintf("SPEC selects nothing but the library returned %s", JSONString(lib.got))
		}
		if msg := matchRuntimeError(res, info, c.Texts); msg != "" {
			return msg
		}
		st.Class("outcome:" + info.Type)
	}
	// non-triviality: look at the first main-path function
	firstFn := -1
	for i := range c.AST.Steps {
		if c.AST.Steps[i].Kind == gen.KFunc {
			firstFn = i
			break
		}
	}
	nt := false
	if firstFn >= 0 {
		fn := c.AST.Steps[firstFn]
		n := 0
		for _, call := range res.Calls {
			if call.Fn == fn.Fn {
				if fn.Agg {
					n = len(call.Arg.([]interface{}))
				} else {
					n++
				}
			}
		}
		if n >= 2 {
			nt = true
			st.Class("nontrivial:>=2 values reach first function")
		}
		if fn.Agg {
			for i := 1; i < firstFn; i++ {
				if c.AST.Steps[i].IsGroupStep() && n >= 1 {
					nt = true
					st.Class("nontrivial:aggregate after later group step")
					break
				}
			}
		}
	}
	if nt {
		st.Class("nontrivial")
		st.NonTrivialCase(c.Path+"\x00"+docText+fmt.Sprint(c.UseNumber), func() interface{} {
			calls := []string{}
			for _, rc := range lib.rec.Calls {
				calls = append(calls, rc.Fn+"("+JSONString(rc.Arg)+")")
			}
			return map[string]interface{}{"path": c.Path, "doc": docText, "calls": calls, "result": JSONString(lib.got), "error": info.Text}
		})
	}
	return ""
}

func init() {
	Register("TestC14_Calls", checkC14)
	AddSeed("TestC14_Calls", &Case{Path: "$.a.*.g1()", AST: &gen.Path{Steps: []gen.Step{{Kind: gen.KName, Key: "a"}, {Kind: gen.KWild}, {Kind: gen.KFunc, Fn: "g1", Agg: true}}},
		Texts: []gen.StepText{{Written: ".a", Names: []string{".a"}}, {Written: ".*", Names: []string{".*"}}, {Written: ".g1()", Names: []string{".g1()"}}},
		Doc:   gen.Obj().Set("a", gen.Arr(gen.Arr(gen.Num(1), gen.Num(2)), gen.Arr(gen.Num(3)))), Funcs: true})
}
