package props

import "testing"

func TestC14_Calls(t *testing.T) {
	checkRapid(t, "C14", "TestC14_Calls", ruleC14, drawC14)
}
