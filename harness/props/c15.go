package props

import (
	"fmt"
	"strings"

	"pgregory.net/rapid"

	"verif/harness/gen"
	"verif/harness/spec"
)

const ruleC15 = "failing (path, document) pairs of the C01 generators, enriched by extra perturbation (dropped keys, retyped nodes, emptied containers) and, in a quarter of the cases, non-JSON leaves for the found= clause; failing user functions. " +
	"Oracle: SPEC's candidate set (failures at the deepest failing step; non-type failures preferred): the error's Go type, path=/function= text, expected= and found= must match a candidate; for single-valued paths the set is a singleton, i.e. the comparison is exact. " +
	"Non-trivial: the failure is at the 2nd step or later, or >=2 branches fail at different steps/kinds. Distinct = distinct (path, document, mode)."

func drawC15(rt *rapid.T) *Case {
	g := gen.NewG(rt, gen.PathOpts{Funcs: true, RootOmit: true, FuncPct: 25, MinSteps: 1, LongPaths: true})
	p := g.Path()
	if gen.Uniform(rt, "hugename", 300) == 0 {
		// a path of more than 64 KiB: one member name is tens of thousands of characters long.
		// Which failure is the deepest does not depend on how much text the steps take.
		var names []int
		for i := range p.Steps {
			if p.Steps[i].Kind == gen.KName {
				names = append(names, i)
			}
		}
		if len(names) > 0 {
			p.Steps[names[gen.Uniform(rt, "hugestep", len(names))]].Key = strings.Repeat("k", 65400+gen.Uniform(rt, "hugelen", 700))
		}
	}
	var r gen.Rendered
	if gen.Uniform(rt, "styled", 4) == 0 {
		r = gen.Render(p, gen.RapidStyle{T: rt})
	} else {
		r = gen.Render(p, gen.Canon)
	}
	d := g.DocFor(p)
	if gen.Uniform(rt, "extra", 10) < 6 {
		d = g.Perturb(d)
	}
	if gen.Uniform(rt, "opaque", 4) == 0 {
		d = g.Opaquify(d)
	}
	return &Case{Path: r.Text, AST: p, Texts: r.Steps, Doc: d, UseNumber: rapid.Bool().Draw(rt, "usenumber"), Funcs: true}
}

func checkC15(c *Case, st *Stats) string {
	docText := c.Doc.JSON()
	Journal(c.Check, c.Path, docText, flagString(c))
	lib := evalLibrary(c, c.Document(), false)
	st.Eval(1)
	if lib.parseErr != nil {
		return fmt.Sprintf("generated path was rejected by Parse: %v", lib.parseErr)
	}
	res := spec.Eval(c.AST, c.Document(), gen.PureFuncs{})
	if res.Unspecified {
		st.Class("unspecified")
		return ""
	}
	if len(res.Nodes) > 0 {
		st.Class("outcome:values(not this property)")
		if lib.err != nil {
			return fmt.Sprintf("SPEC selects %d values but the library failed: %v", len(res.Nodes), lib.err)
		}
		return ""
	}
	if lib.err == nil {
		return fmt.Sprintf("SPEC selects nothing but the library returned %s", JSONString(lib.got))
	}
	info := DescribeErr(lib.err)
	if !info.IsRuntime() {
		return fmt.Sprintf("not a documented runtime error: %T %v", lib.err, lib.err)
	}
	st.Class("error:" + info.Type)
	if msg := matchRuntimeError(res, info, c.Texts); msg != "" {
		return msg
	}
	if len(c.Path) > 65536 {
		st.Class("path:longer-than-64KiB")
	}
	group := c.AST.IsGroupPath() || hasGroupStep(c.AST)
	if group {
		st.Class("path:multi-branch")
	} else {
		st.Class("path:single-valued")
	}
	cands := candidateSet(res.Fails, false)
	deepest := 0
	kinds := map[string]bool{}
	for _, f := range res.Fails {
		kinds[fmt.Sprintf("%d/%s", f.Depth, f.Kind)] = true
	}
	for _, f := range cands {
		if f.Step > deepest {
			deepest = f.Step
		}
	}
	if res.Touched > 0 {
		st.Class("touched-opaque")
	}
	if deepest >= 1 || len(kinds) >= 2 {
		if deepest >= 1 {
			st.Class("nontrivial:depth>=2")
		}
		if len(kinds) >= 2 {
			st.Class("nontrivial:multi-failure")
		}
		st.NonTrivialCase(c.Path+"\x00"+docText+fmt.Sprint(c.UseNumber), func() interface{} {
			return map[string]interface{}{"path": c.Path, "doc": docText, "error": info.Text, "spec_candidates": describeCandidates(res, c.Texts), "failing_branches": len(res.Fails)}
		})
	}
	return ""
}

func hasGroupStep(p *gen.Path) bool {
	for i := range p.Steps {
		if p.Steps[i].IsGroupStep() {
			return true
		}
	}
	return false
}

func init() {
	Register("TestC15_Errors", checkC15)
}
