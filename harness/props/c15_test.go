package props

import "testing"

func TestC15_Errors(t *testing.T) {
	checkRapid(t, "C15", "TestC15_Errors", ruleC15, drawC15)
}
