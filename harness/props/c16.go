package props

import (
	"fmt"
	"reflect"
	"strings"

	"github.com/AsaiYusuke/jsonpath"

	"pgregory.net/rapid"

	"verif/harness/gen"
	"verif/harness/spec"
)

const ruleC16 = "keys of 0..12 characters from all Unicode planes, every ASCII symbol, control characters, escape look-alikes as literal text (backslash-n, backslash-u0041, backslash-ud800, doubled backslash, backslash-quote ...), each among 1..5 near-miss sibling keys (backslash added/removed, decoded form of the look-alike, prefix, case variant, trailing space/NUL) with distinct values; " +
	"spellings ['k'] and [\"k\"] with minimal / full \\uXXXX (surrogate pairs) / '\\/' escaping and U+FFFD as the lone-surrogate escape, and the dot form with every symbol backslash-escaped (non-empty keys without control characters); positions: root, without '$', after '..', after another name, inside a filter (comparison and existence), inside a multi-name selector; plus an absent near-miss key. " +
	"Oracle: plain Go map lookup (after '..': all and only the occurrences in pre-order). Non-trivial: the key is empty or has a character outside [A-Za-z0-9_-], and the object has >=1 near-miss sibling. Distinct = distinct (key, siblings). A kept parsed function whose filter reads the member from the root is called four times while the caller replaces the member in place."

func drawC16(rt *rapid.T) *Case {
	g := gen.NewG(rt, gen.PathOpts{})
	key := g.Key()
	misses := gen.NearMisses(key)
	n := 1 + gen.Uniform(rt, "nsib", 5)
	c := &Case{Strs: []string{key}}
	for i := 0; i < n && len(misses) > 0; i++ {
		j := gen.Uniform(rt, "sib", len(misses))
		c.Strs = append(c.Strs, misses[j])
		misses = append(misses[:j:j], misses[j+1:]...)
	}
	// one more near miss stays absent from the object
	if len(misses) > 0 {
		c.Paths = []string{misses[gen.Uniform(rt, "absent", len(misses))]}
	}
	c.Path = gen.QuoteName(key, gen.NSQ, 0)
	if gen.Uniform(rt, "nullvalue", 5) == 0 {
		c.Ints = []int{1}
	}
	return c
}

type keySpelling struct {
	name string
	sel  string // selector text: "['k']" or ".k"
	dot  bool
}

func spellingsOf(key string) []keySpelling {
	var out []keySpelling
	for _, q := range []gen.Notation{gen.NSQ, gen.NDQ} {
		qn := "sq"
		if q == gen.NDQ {
			qn = "dq"
		}
		for mode := 0; mode < 4; mode++ {
			out = append(out, keySpelling{fmt.Sprintf("%s-mode%d", qn, mode), "[" + gen.QuoteName(key, q, mode) + "]", false})
		}
		if strings.ContainsRune(key, 0xfffd) {
			out = append(out, keySpelling{qn + "-lone-surrogate", "[" + gen.QuoteNameSurrogate(key, q) + "]", false})
			out = append(out, keySpelling{qn + "-lone-surrogate-all-escaped", "[" + gen.QuoteNameSurrogateAll(key, q) + "]", false})
		}
	}
	if gen.DotLegal(key) {
		out = append(out, keySpelling{"dot", "." + gen.DotName(key), true})
	}
	return out
}

func retrieveText(path string, doc interface{}, st *Stats) ([]interface{}, error, error) {
	f, err := jsonpath.Parse(path)
	if err != nil {
		return nil, nil, err
	}
	st.Eval(1)
	got, rerr := f(doc)
	return got, rerr, nil
}

func checkC16(c *Case, st *Stats) string {
	key := c.Strs[0]
	Journal(c.Check, c.Path, strings.Join(c.Strs, "\x01"), "")
	obj := map[string]interface{}{}
	obj2 := map[string]interface{}{} // a second object for the '..' and filter positions: lacks the key, has the siblings
	for i, k := range c.Strs {
		obj[k] = float64(1000 + i)
		if i == 0 && len(c.Ints) > 0 && c.Ints[0] == 1 {
			obj[k] = nil // a member whose value is JSON null is still a member
		}
		if i > 0 {
			obj2[k] = float64(2000 + i)
		}
	}
	obj3 := map[string]interface{}{key: float64(3000)}
	want := obj[key]
	nested := map[string]interface{}{"w": obj, "l": []interface{}{obj2, obj3}, "o": map[string]interface{}{"o": obj},
		"t": []interface{}{[]interface{}{obj3, []interface{}{obj}}, 1.0, []interface{}{}}} // arrays directly inside arrays
	// expected occurrences under '..' in pre-order, by an independent traversal
	var occ []interface{}
	var walk func(v interface{})
	walk = func(v interface{}) {
		switch t := v.(type) {
		case map[string]interface{}:
			if x, ok := t[key]; ok {
				occ = append(occ, x)
			}
			for _, k := range spec.SortedKeys(t) {
				walk(t[k])
			}
		case []interface{}:
			for _, x := range t {
				walk(x)
			}
		}
	}
	walk(nested)
	list := []interface{}{obj, obj2, obj3}
	// regions: an OBJECT whose members are filtered, with the key further down in the selected ones
	regions := map[string]interface{}{
		"zz9r1": map[string]interface{}{"zz9t": 1.0, "zz9in": obj},
		"zz9r2": map[string]interface{}{"zz9t": 1.0, "zz9in": map[string]interface{}{"zz9x": obj3, "zz9y": obj2}},
		"zz9r3": map[string]interface{}{"zz9t": 2.0, "zz9in": obj},
		"zz9r4": map[string]interface{}{"zz9t": 1.0, "zz9in": []interface{}{obj2, obj}},
	}
	var occRegions []interface{}
	for _, rk := range []string{"zz9r1", "zz9r2", "zz9r4"} {
		saved := occ
		occ = nil
		walk(regions[rk])
		occRegions = append(occRegions, occ...)
		occ = saved
	}
	members := map[string]interface{}{"zz9m1": obj, "zz9m2": obj2, "zz9m3": obj3}
	eqLit := "1000"
	if want == nil {
		eqLit = "null"
		st.Class("value:null")
	}
	for _, sp := range spellingsOf(key) {
		st.Class("spelling:" + sp.name)
		type probe struct {
			pos    string
			path   string
			doc    interface{}
			expect []interface{}
		}
		probes := []probe{
			{"root", "$" + sp.sel, obj, []interface{}{want}},
			{"after-name", "$.w" + sp.sel, nested, []interface{}{want}},
			{"after-..", "$.." + strings.TrimPrefix(sp.sel, "."), nested, occ},
			{"filter-eq", "$[?(@" + sp.sel + " == " + eqLit + ")]", list, []interface{}{obj}},
			{"filter-exists", "$[?(@" + sp.sel + ")]", list, []interface{}{obj, obj3}},
			{"filter-ne", "$[?(@" + sp.sel + " != 3000)]", list, []interface{}{obj, obj2}},
			{"below-object-filter-..", "$[?(@.zz9t == 1)].." + strings.TrimPrefix(sp.sel, "."), regions, occRegions},
			{"below-object-filter", "$[?(@.zz9t == 2)].zz9in" + sp.sel, regions, []interface{}{want}},
			{"below-wildcard", "$.*" + sp.sel, members, []interface{}{want, 3000.0}},
			{"root-member-inside-a-nested-filter", "$.zz9items[?(@.tags[?(@ == $" + sp.sel + ")])].id", map[string]interface{}{key: want, "zz9items": []interface{}{
				map[string]interface{}{"id": 1.0, "tags": []interface{}{"no", want}, key: "decoy"}, map[string]interface{}{"id": 2.0, "tags": []interface{}{"no"}}, map[string]interface{}{"id": 3.0, "tags": []interface{}{want}}}}, []interface{}{1.0, 3.0}},
			{"after-non-ascii-dot-name", "$.é" + sp.sel, map[string]interface{}{"é": obj, "e": obj3}, []interface{}{want}},
			{"after-non-ascii-bracket-names", "$['日本']['😀']" + sp.sel, map[string]interface{}{"日本": map[string]interface{}{"😀": obj}}, []interface{}{want}},
			{"below-wildcard-filter-on-objects", "$.*[?(@" + sp.sel + ")]", map[string]interface{}{"zz9a": map[string]interface{}{"p": obj, "q": obj2}, "zz9b": map[string]interface{}{"p": obj3}}, []interface{}{obj, obj3}},
		}
		if sp.dot {
			probes = append(probes, probe{"no-dollar", strings.TrimPrefix(sp.sel, "."), obj, []interface{}{want}})
		} else {
			probes = append(probes, probe{"no-dollar", sp.sel, obj, []interface{}{want}})
			inner := sp.sel[1 : len(sp.sel)-1]
			probes = append(probes,
				probe{"multi-first", "$[" + inner + ",'zz9-absent']", obj, []interface{}{want}},
				probe{"multi-second", "$['zz9-absent'," + inner + "]", obj, []interface{}{want}})
		}
		// a path that starts with the filter itself ('$' omitted), right after a Parse that was rejected
		// inside a filter operand with selectors in front of the filter: what that parse had built
		// must not be prepended to, or otherwise leak into, the next path
		probes = append(probes, probe{"no-dollar-filter-first-after-a-rejected-parse", "[?(@" + sp.sel + " == " + eqLit + ")]", list, []interface{}{obj}})
		for _, p := range probes {
			if p.pos == "no-dollar-filter-first-after-a-rejected-parse" {
				poison := poisonPaths[(len(key)*7+len(sp.sel))%len(poisonPaths)]
				_, _ = jsonpath.Parse(poison, BuildConfig(nil, true, false))
			}
			got, rerr, perr := retrieveText(p.path, p.doc, st)
			if perr != nil {
				return fmt.Sprintf("key %q, spelling %s, position %s: %q was rejected by Parse: %v", key, sp.name, p.pos, p.path, perr)
			}
			if rerr != nil {
				return fmt.Sprintf("key %q, spelling %s, position %s: %q failed: %v (expected %s)", key, sp.name, p.pos, p.path, rerr, JSONString(p.expect))
			}
			if !reflect.DeepEqual(got, p.expect) {
				return fmt.Sprintf("key %q, spelling %s, position %s: %q returned %s, expected %s (siblings %q)", key, sp.name, p.pos, p.path, JSONString(got), JSONString(p.expect), c.Strs[1:])
			}
		}
		st.Class("positions-checked")
		// a kept parsed function whose filter reads the member from the root: the caller replaces the
		// member's value in place between two calls; the second call must compare with the value the
		// member holds now (same object, same number of members)
		if key != "zz9items" {
			path := "$.zz9items[?(@.c == $" + sp.sel + ")].id"
			held := map[string]interface{}{key: 1.0, "zz9items": []interface{}{
				map[string]interface{}{"c": 1.0, "id": 10.0}, map[string]interface{}{"c": 2.0, "id": 20.0}, map[string]interface{}{"c": "1", "id": 30.0}}}
			f, perr := jsonpath.Parse(path)
			if perr != nil {
				return fmt.Sprintf("key %q, spelling %s: %q was rejected by Parse: %v", key, sp.name, path, perr)
			}
			for round, step := range []struct {
				val    interface{}
				expect []interface{}
			}{{1.0, []interface{}{10.0}}, {2.0, []interface{}{20.0}}, {"1", []interface{}{30.0}}, {1.0, []interface{}{10.0}}} {
				held[key] = step.val
				got, rerr := f(held)
				st.Eval(1)
				if rerr != nil || !reflect.DeepEqual(got, step.expect) {
					return fmt.Sprintf("key %q, spelling %s: kept parsed %q, call %d after the caller set the member to %s in place, returned (%s, %v), expected %s", key, sp.name, path, round+1, JSONString(step.val), JSONString(got), rerr, JSONString(step.expect))
				}
			}
			st.Class("root-member-in-filter-edited-in-place")
		}
		// the same member through an accessor: Get reads it, Set writes it and nothing else
		if len(sp.name)%2 == 0 {
			var acfg jsonpath.Config
			acfg.SetAccessorMode()
			target := map[string]interface{}{}
			for k, v := range obj {
				target[k] = v
			}
			ga, ea := jsonpath.Retrieve("$"+sp.sel, target, acfg)
			st.Eval(1)
			if ea != nil || len(ga) != 1 {
				return fmt.Sprintf("key %q, spelling %s, accessor mode: (%d results, %v)", key, sp.name, len(ga), ea)
			}
			a, ok := ga[0].(jsonpath.Accessor)
			if !ok || a.Get == nil || a.Set == nil || !reflect.DeepEqual(a.Get(), want) {
				return fmt.Sprintf("key %q, spelling %s, accessor mode: result is %s, the member holds %s", key, sp.name, JSONString(ga[0]), JSONString(want))
			}
			a.Set("WRITTEN-THROUGH-ACCESSOR")
			for k, v := range obj {
				expect := v
				if k == key {
					expect = "WRITTEN-THROUGH-ACCESSOR"
				}
				if !reflect.DeepEqual(target[k], expect) {
					return fmt.Sprintf("key %q, spelling %s: Set through the accessor left member %q = %s (expected %s)", key, sp.name, k, JSONString(target[k]), JSONString(expect))
				}
			}
			if len(target) != len(obj) {
				return fmt.Sprintf("key %q, spelling %s: Set through the accessor changed the number of members from %d to %d", key, sp.name, len(obj), len(target))
			}
			st.Class("accessor-get-set")
		}
	}
	// the member stays addressable by a parsed function whose previous call was cut short: a user
	// function panicked half-way through the traversal and the caller recovered
	if sps := spellingsOf(key); len(sps) > 0 {
		sp := sps[len(c.Strs)%len(sps)]
		path := "$.." + strings.TrimPrefix(sp.sel, ".") + ".f1()"
		rec := &Recorder{}
		f, err := jsonpath.Parse(path, BuildConfig(rec, true, false))
		if err != nil {
			return fmt.Sprintf("key %q, spelling %s: %q was rejected by Parse: %v", key, sp.name, path, err)
		}
		rec.PanicNext = 1 + len(key)%3
		func() {
			defer func() {
				if r := recover(); r != nil {
					if _, ours := r.(UserPanic); !ours {
						panic(r)
					}
				}
			}()
			_, _ = f(regions)
		}()
		rec.PanicNext = 0
		got, rerr := f(nested)
		st.Eval(2)
		var expect []interface{}
		for _, x := range occ {
			expect = append(expect, []interface{}{"f1", x})
		}
		if rerr != nil || !reflect.DeepEqual(got, expect) {
			return fmt.Sprintf("key %q, spelling %s: %q, called after a call in which a user function panicked (recovered by the caller), returned (%s, %v), expected %s", key, sp.name, path, JSONString(got), rerr, JSONString(expect))
		}
		st.Class("after-a-panicking-call")
	}
	// an absent near-miss key must not be found
	for _, absent := range c.Paths {
		if _, present := obj[absent]; present {
			continue
		}
		for _, sp := range spellingsOf(absent) {
			got, rerr, perr := retrieveText("$"+sp.sel, obj, st)
			if perr != nil {
				return fmt.Sprintf("absent key %q, spelling %s was rejected by Parse: %v", absent, sp.name, perr)
			}
			if rerr == nil || DescribeErr(rerr).Type != "ErrorMemberNotExist" {
				return fmt.Sprintf("absent key %q (object keys %q), spelling %s: expected ErrorMemberNotExist, got (%s, %v)", absent, c.Strs, sp.name, JSONString(got), rerr)
			}
		}
		st.Class("absent-key-checked")
	}
	plain := key != ""
	for _, r := range key {
		if !(r >= 'a' && r <= 'z' || r >= 'A' && r <= 'Z' || r >= '0' && r <= '9' || r == '_' || r == '-') {
			plain = false
		}
	}
	if !plain && len(c.Strs) > 1 {
		st.Class("nontrivial")
		st.NonTrivialCase(strings.Join(c.Strs, "\x01"), func() interface{} {
			return map[string]interface{}{"key": key, "siblings": c.Strs[1:], "spellings": len(spellingsOf(key)), "example": "$[" + gen.QuoteName(key, gen.NSQ, 0) + "]"}
		})
	}
	for _, r := range key {
		switch {
		case r < 0x20 || r == 0x7f:
			st.Class("key-has:control")
		case r >= 0x10000:
			st.Class("key-has:astral")
		case r >= 0x80:
			st.Class("key-has:non-ascii-bmp")
		case r == '\\':
			st.Class("key-has:backslash")
		case r == '\'' || r == '"':
			st.Class("key-has:quote")
		}
	}
	if key == "" {
		st.Class("key-has:empty")
	}
	return ""
}

func init() {
	Register("TestC16_Keys", checkC16)
	for _, k := range []string{"", "'", `"`, `\`, `\\`, `\n`, "\n", `\u0041`, "\ufffd", "a.b", "😀", "\x00", "a b", `\'`, "*", "$", "@", "..", "()", "a()"} {
		AddSeed("TestC16_Keys", &Case{Strs: append([]string{k}, firstN(gen.NearMisses(k), 4)...), Path: gen.QuoteName(k, gen.NSQ, 0)})
	}
}

func firstN(s []string, n int) []string {
	if len(s) > n {
		return s[:n]
	}
	return s
}
