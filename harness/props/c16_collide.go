package props

import (
	"fmt"
	"hash/adler32"
	"hash/crc32"
	"hash/fnv"
	"reflect"
	"strconv"

	"verif/harness/gen"
)

// TestC16_Collide: pairs of different paths (addressing different members of one object) whose
// texts have the same 32-bit hash under the usual string hashes (FNV-1a, FNV-1, CRC-32 IEEE and
// Castagnoli, Adler-32, djb2, sdbm, Java's 31-multiplier). Found by a birthday search over
// 400 000 generated paths per hash function; a table of parsed paths that trusts such a hash
// answers the second path with the first one's member.

const ruleC16Collide = "birthday search over 400 000 generated paths ($.item<N>, $['item<N>'], item<N>) for pairs with equal 32-bit FNV-1a / FNV-1 / CRC-32 (IEEE, Castagnoli) / Adler-32 / djb2 / sdbm / Java-31 hashes (up to 40 pairs per hash); per pair an object holding both members with different values; " +
	"path A, path B, path A again are evaluated with no Config through Parse and through Retrieve: each returns exactly its own member. Non-trivial: every pair."

type strHash struct {
	name string
	fn   func(s string) uint32
}

var crcCast = crc32.MakeTable(crc32.Castagnoli)

var strHashes = []strHash{
	{"fnv1a-32", func(s string) uint32 { h := fnv.New32a(); h.Write([]byte(s)); return h.Sum32() }},
	{"fnv1-32", func(s string) uint32 { h := fnv.New32(); h.Write([]byte(s)); return h.Sum32() }},
	{"crc32-ieee", func(s string) uint32 { return crc32.ChecksumIEEE([]byte(s)) }},
	{"crc32-castagnoli", func(s string) uint32 { return crc32.Checksum([]byte(s), crcCast) }},
	{"adler32", func(s string) uint32 { return adler32.Checksum([]byte(s)) }},
	{"djb2", func(s string) uint32 {
		h := uint32(5381)
		for i := 0; i < len(s); i++ {
			h = h*33 + uint32(s[i])
		}
		return h
	}},
	{"sdbm", func(s string) uint32 {
		h := uint32(0)
		for i := 0; i < len(s); i++ {
			h = uint32(s[i]) + (h << 6) + (h << 16) - h
		}
		return h
	}},
	{"java31", func(s string) uint32 {
		h := uint32(0)
		for i := 0; i < len(s); i++ {
			h = 31*h + uint32(s[i])
		}
		return h
	}},
}

func collidePath(i int) (string, string) {
	key := "item" + strconv.Itoa(i/3)
	switch i % 3 {
	case 0:
		return "$." + key, key
	case 1:
		return "$['" + key + "']", key
	}
	return key, key
}

// collisionCases enumerates the pairs (deterministic).
func collisionCases() []*Case {
	var out []*Case
	const n = 400000
	for hi, h := range strHashes {
		seen := make(map[uint32]int32, n)
		found := 0
		for i := 0; i < n && found < 40; i++ {
			p, k := collidePath(i)
			v := h.fn(p)
			if j, ok := seen[v]; ok {
				p0, k0 := collidePath(int(j))
				if k0 != k {
					out = append(out, &Case{Path: p0, Paths: []string{p}, Strs: []string{k0, k}, Ints: []int{hi}, Note: ""})
					found++
				}
				continue
			}
			seen[v] = int32(i)
		}
	}
	return out
}

func checkC16Collide(c *Case, st *Stats) string {
	Journal(c.Check, c.Path, c.Paths[0], "")
	obj := map[string]interface{}{c.Strs[0]: 1.0, c.Strs[1]: 2.0}
	st.Class("hash:" + strHashes[c.Ints[0]%len(strHashes)].name)
	seq := []struct {
		path string
		want float64
	}{{c.Path, 1}, {c.Paths[0], 2}, {c.Path, 1}}
	for _, retrieve := range []bool{false, true} {
		for i, s := range seq {
			got, rerr, perr := bareCall(s.path, retrieve, obj)
			st.Eval(1)
			if perr != nil {
				return fmt.Sprintf("path %q was rejected: %v", s.path, perr)
			}
			if rerr != nil || !reflect.DeepEqual(got, []interface{}{s.want}) {
				return fmt.Sprintf("step %d of the sequence %q, %q, %q (Retrieve=%v) on %s: path %q returned (%s, %v), its member holds %v", i, c.Path, c.Paths[0], c.Path, retrieve, JSONString(obj), s.path, JSONString(got), rerr, s.want)
			}
		}
	}
	st.Class("nontrivial")
	st.NonTrivialCase(c.Path+"\x00"+c.Paths[0], func() interface{} {
		return map[string]interface{}{"path_a": c.Path, "path_b": c.Paths[0], "equal_hash": strHashes[c.Ints[0]%len(strHashes)].name}
	})
	return ""
}

func init() {
	Register("TestC16_Collide", checkC16Collide)
	_ = gen.Keys
}
