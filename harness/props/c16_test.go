package props

import "testing"

func TestC16_Keys(t *testing.T) {
	checkRapid(t, "C16", "TestC16_Keys", ruleC16, drawC16)
}

func TestC16_Collide(t *testing.T) {
	cases := collisionCases()
	st := NewStats("C16", "TestC16_Collide", ruleC16Collide)
	defer st.Flush()
	startWatchdog()
	fn := replayers["TestC16_Collide"]
	shard, nshards := shardInfo()
	for i, c := range cases {
		if i%nshards != shard {
			continue
		}
		c.Property, c.Check = "C16", "TestC16_Collide"
		st.Case()
		enterCase(c)
		msg := safeRun(fn, c, st)
		leaveCase()
		if msg != "" {
			Fail(t, c, "%s", msg)
		}
	}
}
