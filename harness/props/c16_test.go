package props

import "testing"

func TestC16_Keys(t *testing.T) {
	checkRapid(t, "C16", "TestC16_Keys", ruleC16, drawC16)
}
