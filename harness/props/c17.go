package props

import (
	"fmt"
	"os"
	"reflect"
	"strconv"
	"strings"
	"unicode/utf8"

	"pgregory.net/rapid"

	"verif/harness/gen"
	"verif/harness/pegi"
)

const ruleC17 = "the C02 string families incl. grammar-derived sentences and deep nestings (ASCII and non-ASCII), parsed with the function catalogue registered or not; " +
	"oracle = PEGI (an interpreter executing /repo/jsonpath.peg) + the documented restrictions evaluated on PEGI's derivation tree: accepted iff derivable and restriction-free; " +
	"otherwise the error type of the first violated restriction, or ErrorInvalidSyntax 'unrecognized input' with position = end of the longest accepted prefix (in characters) and near = the rest of the path from that character. " +
	"Non-trivial: PEGI consumes >=2 characters before failing, or the string is accepted with >=2 steps, or a restriction fires. Distinct = distinct (string, functions registered?)."

// syntaxErrInfo is a parsed ErrorInvalidSyntax.
type syntaxErrInfo struct {
	Position int
	Reason   string
	Near     string
	OK       bool
}

func parseSyntaxErr(text string) syntaxErrInfo {
	const pfx = "invalid syntax (position="
	if !strings.HasPrefix(text, pfx) || !strings.HasSuffix(text, ")") {
		return syntaxErrInfo{}
	}
	body := text[len(pfx) : len(text)-1]
	i := strings.Index(body, ", reason=")
	if i < 0 {
		return syntaxErrInfo{}
	}
	pos, err := strconv.Atoi(body[:i])
	if err != nil {
		return syntaxErrInfo{}
	}
	rest := body[i+len(", reason="):]
	j := strings.Index(rest, ", near=")
	if j < 0 {
		return syntaxErrInfo{}
	}
	return syntaxErrInfo{Position: pos, Reason: rest[:j], Near: rest[j+len(", near="):], OK: true}
}

const (
	reasonUnrecognized = "unrecognized input"
	reasonTwoCurrent   = "comparison between two current nodes is prohibited"
	reasonValueGroup   = "JSONPath that returns a value group is prohibited"
)

func drawC17(rt *rapid.T) *Case {
	g := gen.NewG(rt, gen.PathOpts{Funcs: true, RootOmit: true, BigInts: true, FuncPct: 25})
	paths, _ := suiteCorpus()
	s, fam := g.MutString(paths)
	if gs, ok := grammarSentence(rt); ok {
		s, fam = gs, famGrammar
		if gen.Uniform(rt, "gmut", 3) == 0 {
			s = g.MutateText(s)
		}
	}
	if gen.Uniform(rt, "longtail", 25) == 0 {
		// a long rest behind whatever the path was: hundreds of characters of further steps, one
		// long quoted name, blanks, or a run of letters - position and "near" are defined for paths
		// of any length
		n := 90 + gen.Uniform(rt, "taillen", 400)
		var tail string
		switch gen.Uniform(rt, "tailkind", 5) {
		case 0:
			tail = strings.Repeat(".ab", n)
		case 1:
			tail = "['" + strings.Repeat("k", 3*n) + "']"
		case 2:
			tail = strings.Repeat(" ", 3*n)
		case 3:
			tail = strings.Repeat("[0]['é']", n/2)
		default:
			tail = strings.Repeat("x", 3*n)
		}
		switch gen.Uniform(rt, "tailjoin", 3) {
		case 0:
			s += "]" + tail
		case 1:
			s += tail + "]"
		default:
			s += tail
		}
	}
	return &Case{Path: s, Funcs: gen.Uniform(rt, "funcs", 3) > 0, Strs: []string{fam}}
}

var grammarForChecks *pegi.Grammar

func theGrammar() (*pegi.Grammar, error) {
	if grammarForChecks != nil {
		return grammarForChecks, nil
	}
	// The published grammar is the committed reference copy (the grammar file as it was when the
	// properties were written; only its rules matter to PEGI, not the Go actions). A change that
	// edits /repo/jsonpath.peg and the generated parser consistently would otherwise move the
	// oracle along with the implementation. Without the copy, /repo's file is used.
	dir := os.Getenv("VERIF_DIR")
	if dir == "" {
		dir = "/verif"
	}
	g, err := pegi.LoadGrammar(dir + "/corpus/jsonpath.peg.ref")
	if err != nil {
		g, err = pegi.LoadGrammar(repoDirNT() + "/jsonpath.peg")
	}
	if err != nil {
		return nil, err
	}
	grammarForChecks = g
	return g, nil
}

// pegiExpectation is what PEGI + restrictions predict for Parse(path).
type pegiExpectation struct {
	Accept   bool
	Type     string
	Position int
	Reason   string
	Near     string
	Arg      string
	verdict  pegi.Verdict
}

func expectFromPEGI(g *pegi.Grammar, path string, funcs bool) pegiExpectation {
	v := g.Parse(path)
	fs := pegi.NoFuncs
	if funcs {
		fs = pegi.CatalogueFuncs
	}
	rs := pegi.Restrictions(v.Tree, v.Runes, fs)
	ex := pegiExpectation{verdict: v}
	switch {
	case len(rs) > 0:
		ex.Type = rs[0].Type
		ex.Arg = rs[0].Arg
		if rs[0].Type == "ErrorInvalidSyntax" {
			ex.Position = rs[0].Position
			ex.Near = string(v.Runes[rs[0].Position:])
			if rs[0].Reason == "two current" {
				ex.Reason = reasonTwoCurrent
			} else {
				ex.Reason = reasonValueGroup
			}
		}
	case v.Accepted:
		ex.Accept = true
	default:
		ex.Type = "ErrorInvalidSyntax"
		ex.Reason = reasonUnrecognized
		ex.Position = v.PrefixEnd
		ex.Near = string(v.Runes[v.PrefixEnd:])
	}
	return ex
}

func checkC17(c *Case, st *Stats) string {
	g, gerr := theGrammar()
	if gerr != nil {
		return "harness: cannot load the published grammar: " + gerr.Error()
	}
	Journal(c.Check, c.Path, "", flagString(c))
	ex := expectFromPEGI(g, c.Path, c.Funcs)
	f, err := parseWith(c.Path, c.Funcs, false, &Recorder{})
	st.Eval(1)
	if msg := parseOutcome(f, err); msg != "" {
		return msg
	}
	// the language does not change with use: the same string again gets the same verdict
	f2, err2 := parseWith(c.Path, c.Funcs, false, &Recorder{})
	st.Eval(1)
	if msg := parseOutcome(f2, err2); msg != "" {
		return "second Parse of the same path: " + msg
	}
	if (err == nil) != (err2 == nil) || (err != nil && (reflect.TypeOf(err) != reflect.TypeOf(err2) || err.Error() != err2.Error())) {
		return fmt.Sprintf("Parse of the same path twice in a row: first (%v), then (%v)", err, err2)
	}
	info := DescribeErr(err)
	ascii := "ascii"
	for i := 0; i < len(c.Path); i++ {
		if c.Path[i] >= 0x80 {
			ascii = "non-ascii"
			break
		}
	}
	fam := "?"
	if len(c.Strs) > 0 {
		fam = c.Strs[0]
	}
	verdict := "accepted"
	if !ex.Accept {
		verdict = ex.Type
		if ex.Type == "ErrorInvalidSyntax" {
			verdict += ":" + ex.Reason
		}
	}
	st.Class("verdict:" + verdict)
	st.Class("verdict:" + ascii + ":" + map[bool]string{true: "accepted", false: "rejected"}[ex.Accept])
	st.Class("family:" + fam)
	if len(c.Path) > 300 {
		st.Class("path:longer-than-300-bytes")
	}
	if ex.Accept {
		if err != nil {
			return fmt.Sprintf("the grammar derives the whole path and no restriction is violated, but Parse rejected it: %v", err)
		}
	} else {
		if err == nil {
			return fmt.Sprintf("Parse accepted a path that is not derivable / violates a restriction (expected %s %s at %d)", ex.Type, ex.Reason, ex.Position)
		}
		if info.Type != ex.Type {
			return fmt.Sprintf("error type %s, expected %s (%s): %v", info.Type, ex.Type, ex.Reason, err)
		}
		if ex.Type == "ErrorInvalidSyntax" {
			se := parseSyntaxErr(info.Text)
			if !se.OK {
				return "harness: cannot parse ErrorInvalidSyntax text: " + info.Text
			}
			nrunes := utf8.RuneCountInString(c.Path)
			if se.Position < 0 || se.Position > nrunes {
				return fmt.Sprintf("position %d outside the path (%d characters)", se.Position, nrunes)
			}
			if se.Reason != ex.Reason {
				return fmt.Sprintf("reason %q, expected %q", se.Reason, ex.Reason)
			}
			if se.Position != ex.Position {
				return fmt.Sprintf("position %d, expected %d (%s)", se.Position, ex.Position, ex.Reason)
			}
			if se.Near != ex.Near {
				return fmt.Sprintf("near %q is not the rest of the path from character %d (%q)", se.Near, ex.Position, ex.Near)
			}
			if utf8.ValidString(c.Path) && !utf8.ValidString(se.Near) {
				return fmt.Sprintf("near %q is not valid UTF-8 although the path is", se.Near)
			}
		}
	}
	nontrivial := false
	switch {
	case ex.Accept:
		nontrivial = ex.verdict.Tree != nil && len(ex.verdict.Tree.Find("continuedJsonpath").Kids) >= 2
	case ex.Reason == reasonUnrecognized:
		nontrivial = ex.Position >= 2
	default:
		nontrivial = true
	}
	if nontrivial {
		st.Class("nontrivial")
		if !ex.Accept && ascii == "non-ascii" {
			st.Class("nontrivial:non-ascii-rejected")
		}
		st.NonTrivialCase(c.Path+"\x00"+fmt.Sprint(c.Funcs), func() interface{} {
			return map[string]interface{}{"path": c.Path, "family": fam, "funcs": c.Funcs, "pegi": verdict, "library": outcomeText(err)}
		})
	}
	return ""
}

func init() {
	Register("TestC17_Grammar", checkC17)
	Register("TestC17_Reduced", checkC17)
	for _, p := range []string{"$.é.a b", "$.ééé[", "$.😀[?(@.*==1)]", " $.é [ 0 ] x", "$['é','ü'].x y"} {
		AddSeed("TestC17_Grammar", &Case{Path: p, Strs: []string{"seed-D10"}})
	}
}
