package props

import (
	"testing"

	"verif/harness/gen"
)

func TestC17_Grammar(t *testing.T) {
	checkRapid(t, "C17", "TestC17_Grammar", ruleC17, drawC17)
}

func TestC17_Reduced(t *testing.T) {
	sentences := gen.ReducedSentences()
	runEnumerated(t, "C17", "TestC17_Reduced",
		"the bounded-exhaustive reduced grammar of C02, with and without registered functions, each sentence compared with PEGI + restrictions; enumerated completely",
		2*len(sentences), func(i int) *Case {
			return &Case{Path: sentences[i/2], Funcs: i%2 == 1, Strs: []string{"reduced-grammar"}}
		})
}
