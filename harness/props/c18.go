package props

import (
	"fmt"
	"reflect"
	"strings"

	"github.com/AsaiYusuke/jsonpath"

	"pgregory.net/rapid"

	"verif/harness/gen"
)

const ruleC18 = "generated path ASTs, each rendered canonically and in 2..6 random spellings that vary exactly what the grammar declares insignificant (0-2 spaces at every 'space' slot, single/double quotes, JSON escape style, '+' sign / leading zeros on integers, .* vs [*], .name vs ['name'], omitted leading '$', true/True/TRUE), evaluated on generated documents; a spelling is only used if PEGI derives it from the published grammar. " +
	"Oracle: every spelling parses; all return deep-equal results, or errors of the same Go type (same expected/found) whose path text maps to the same step index through the renderer's per-spelling step texts. " +
	"Non-trivial: the spellings differ from the canonical text and the path has a bracket or filter. Distinct = distinct (set of spellings, document, mode)."

func drawC18(rt *rapid.T) *Case {
	g := gen.NewG(rt, gen.PathOpts{Funcs: true, RootOmit: false, FuncPct: 25, ReuseFuncs: true, LongPaths: true})
	p := g.Path()
	canonical := gen.Render(p, gen.Canon)
	c := &Case{Path: canonical.Text, AST: p, Texts: canonical.Steps, Doc: g.Doc(p), UseNumber: rapid.Bool().Draw(rt, "usenumber"), Funcs: true}
	if gen.Uniform(rt, "poison", 6) == 0 {
		c.Strs = []string{poisonPaths[gen.Uniform(rt, "poisonpath", len(poisonPaths))]}
	}
	n := 2 + gen.Uniform(rt, "nvariants", 5)
	for i := 0; i < n; i++ {
		c.Ints = append(c.Ints, int(rapid.Uint32().Draw(rt, "styleseed")))
	}
	return c
}

// seededStyle derives spelling choices deterministically from a seed (so that a case is
// serialisable: the seeds are part of the case, the spellings are recomputed on replay).
type seededStyle struct {
	state uint64
}

func (s *seededStyle) Pick(slot string, n int) int {
	s.state += 0x9e3779b97f4a7c15
	x := s.state
	x ^= x >> 30
	x *= 0xbf58476d1ce4e5b9
	x ^= x >> 27
	x *= 0x94d049bb133111eb
	x ^= x >> 31
	return int(x % uint64(n))
}
func (s *seededStyle) Vary() bool { return true }

func stepIndexes(texts []gen.StepText, name string) map[int]bool {
	out := map[int]bool{}
	for i, t := range texts {
		for _, n := range t.Names {
			if n == name {
				out[i] = true
			}
		}
	}
	return out
}

func checkC18(c *Case, st *Stats) string {
	docText := c.Doc.JSON()
	g, gerr := theGrammar()
	if gerr != nil {
		return "harness: cannot load the published grammar: " + gerr.Error()
	}
	type variant struct {
		text  string
		texts []gen.StepText
	}
	variants := []variant{{c.Path, c.Texts}}
	if c.Texts == nil {
		r := gen.Render(c.AST, gen.Canon)
		variants[0] = variant{r.Text, r.Steps}
	}
	differs := false
	for _, seed := range c.Ints {
		r := gen.Render(c.AST, &seededStyle{state: uint64(seed)})
		if !g.Parse(r.Text).Accepted {
			st.Class("variant:not-derivable(harness renderer)")
			return fmt.Sprintf("harness: the renderer produced a spelling the grammar does not derive: %q", r.Text)
		}
		if r.Text != variants[0].text {
			differs = true
		}
		variants = append(variants, variant{r.Text, r.Steps})
	}
	var base retrieveResult
	var baseInfo ErrInfo
	for i, v := range variants {
		Journal(c.Check, v.text, docText, flagString(c))
		if len(c.Strs) > 0 {
			// every spelling is parsed right after a rejected Parse
			noteParse(c.Strs[0], true, false)
			_, _ = jsonpath.Parse(c.Strs[0], BuildConfig(nil, true, false))
		}
		lib := evalLibrary(&Case{Path: v.text, Funcs: true}, c.Document(), false)
		st.Eval(1)
		if lib.parseErr != nil {
			return fmt.Sprintf("spelling %q of %q was rejected by Parse: %v", v.text, variants[0].text, lib.parseErr)
		}
		info := DescribeErr(lib.err)
		if i == 0 {
			base, baseInfo = lib, info
			continue
		}
		if (lib.err == nil) != (base.err == nil) {
			return fmt.Sprintf("spellings behave differently:\n   %q -> (%s, %v)\n   %q -> (%s, %v)", variants[0].text, JSONString(base.got), base.err, v.text, JSONString(lib.got), lib.err)
		}
		if lib.err == nil {
			if !reflect.DeepEqual(lib.got, base.got) {
				return fmt.Sprintf("spellings return different values:\n   %q -> %s\n   %q -> %s", variants[0].text, JSONString(base.got), v.text, JSONString(lib.got))
			}
			continue
		}
		if info.Type != baseInfo.Type || info.Expected != baseInfo.Expected || info.Found != baseInfo.Found || info.FuncErr != baseInfo.FuncErr {
			return fmt.Sprintf("spellings fail differently:\n   %q -> %v\n   %q -> %v", variants[0].text, base.err, v.text, lib.err)
		}
		nameA, nameB := baseInfo.Path, info.Path
		if info.Type == "ErrorFunctionFailed" {
			nameA, nameB = baseInfo.Function, info.Function
		}
		ia, ib := stepIndexes(variants[0].texts, nameA), stepIndexes(v.texts, nameB)
		common := false
		for k := range ia {
			if ib[k] {
				common = true
			}
		}
		if !common {
			return fmt.Sprintf("spellings fail at different steps:\n   %q -> %v (steps %v)\n   %q -> %v (steps %v)", variants[0].text, base.err, ia, v.text, lib.err, ib)
		}
	}
	if msg := rawControlPairs(c, st); msg != "" {
		return msg
	}
	if msg := escapeStylePairs(c, st); msg != "" {
		return msg
	}
	if base.err == nil {
		st.Class("outcome:values")
	} else {
		st.Class("outcome:" + baseInfo.Type)
	}
	bracket := false
	for i := range c.AST.Steps {
		if c.AST.Steps[i].Kind != gen.KName || c.AST.Steps[i].Not != gen.NDot {
			bracket = true
		}
	}
	if differs && bracket {
		st.Class("nontrivial")
		key := docText + fmt.Sprint(c.UseNumber)
		for _, v := range variants {
			key += "\x00" + v.text
		}
		st.NonTrivialCase(key, func() interface{} {
			ts := []string{}
			for _, v := range variants {
				ts = append(ts, v.text)
			}
			return map[string]interface{}{"spellings": ts, "doc": docText, "outcome": outcomeOf(base)}
		})
	}
	return ""
}

// escapeStylePairs: a quoted name written with every character as a \uXXXX escape (and U+FFFD as
// a lone surrogate escape followed by another escape) means the same in both quote styles, and
// the same as the plain spelling.
func escapeStylePairs(c *Case, st *Stats) string {
	for i := range c.AST.Steps {
		s := &c.AST.Steps[i]
		if s.Kind != gen.KName || s.Rec || len(c.Path)%2 == 1 {
			continue
		}
		var texts, outcomes []string
		dotRaw := ""
		prefix := gen.RenderSteps(append([]gen.Step(nil), c.AST.Steps[:i]...)).Text
		rest := gen.Render(&gen.Path{Root: gen.RootOmitted, Steps: c.AST.Steps[i+1:]}, gen.Canon).Text
		if len(c.AST.Steps[i+1:]) > 0 && c.AST.Steps[i+1].Kind == gen.KName && c.AST.Steps[i+1].Not == gen.NDot && !c.AST.Steps[i+1].Rec {
			rest = "." + rest
		}
		if rest != "" && rest[0] != '[' && rest[0] != '.' {
			continue // the continuation cannot simply be appended to a bracket (a dot-wildcard, say)
		}
		sels := []string{gen.QuoteName(s.Key, gen.NSQ, 0), gen.QuoteName(s.Key, gen.NSQ, 3), gen.QuoteName(s.Key, gen.NDQ, 3)}
		if strings.ContainsRune(s.Key, 0xfffd) {
			sels = append(sels, gen.QuoteNameSurrogateAll(s.Key, gen.NSQ), gen.QuoteNameSurrogateAll(s.Key, gen.NDQ))
			// a byte that is not UTF-8 is read as U+FFFD wherever it stands: quoted, or in a dot name
			sels = append(sels, strings.ReplaceAll(gen.QuoteName(s.Key, gen.NSQ, 0), "\ufffd", "\xff"), strings.ReplaceAll(gen.QuoteName(s.Key, gen.NDQ, 0), "\ufffd", "\xff"))
			if gen.DotLegal(s.Key) && prefix != "" {
				dotRaw = prefix + "." + strings.ReplaceAll(gen.DotName(s.Key), "\ufffd", "\xff") + rest
			}
		}
		all := []string{}
		for _, sel := range sels {
			all = append(all, prefix+"["+sel+"]"+rest)
		}
		if dotRaw != "" {
			all = append(all, dotRaw)
		}
		for _, text := range all {
			lib := evalLibrary(&Case{Path: text, Funcs: true}, c.Document(), false)
			st.Eval(1)
			texts = append(texts, text)
			switch {
			case lib.parseErr != nil:
				outcomes = append(outcomes, "rejected: "+lib.parseErr.Error())
			case lib.err != nil:
				outcomes = append(outcomes, "error: "+reflect.TypeOf(lib.err).Name())
			default:
				outcomes = append(outcomes, "values: "+JSONString(lib.got))
			}
		}
		st.Class("escape-style-pairs")
		for k := 1; k < len(outcomes); k++ {
			if outcomes[k] != outcomes[0] {
				return fmt.Sprintf("spellings of one name disagree: %s -> %s, but %s -> %s", texts[0], outcomes[0], texts[k], outcomes[k])
			}
		}
		break // one name step per case
	}
	return ""
}

// rawControlPairs: a control character written raw inside a quoted name is the same (invalid)
// spelling in both quote styles; the two must be rejected alike or behave alike.
func rawControlPairs(c *Case, st *Stats) string {
	for i := range c.AST.Steps {
		s := &c.AST.Steps[i]
		if s.Kind != gen.KName || s.Not == gen.NDot {
			continue
		}
		ctrl := false
		for _, r := range s.Key {
			if r < 0x20 && r != 0 {
				ctrl = true
			}
		}
		if !ctrl || strings.ContainsAny(s.Key, "'\"\\") {
			continue
		}
		var outcomes []string
		for _, q := range []string{"'", "\""} {
			steps := append([]gen.Step(nil), c.AST.Steps[:i]...)
			prefix := gen.RenderSteps(steps).Text
			rest := gen.Render(&gen.Path{Root: gen.RootOmitted, Steps: c.AST.Steps[i+1:]}, gen.Canon).Text
			if len(c.AST.Steps[i+1:]) > 0 && c.AST.Steps[i+1].Kind == gen.KName && c.AST.Steps[i+1].Not == gen.NDot && !c.AST.Steps[i+1].Rec {
				rest = "." + rest
			}
			text := prefix + "[" + q + s.Key + q + "]" + rest
			lib := evalLibrary(&Case{Path: text, Funcs: true}, c.Document(), false)
			st.Eval(1)
			switch {
			case lib.parseErr != nil:
				outcomes = append(outcomes, "rejected: "+reflect.TypeOf(lib.parseErr).Name())
			case lib.err != nil:
				outcomes = append(outcomes, "error: "+reflect.TypeOf(lib.err).Name())
			default:
				outcomes = append(outcomes, "values: "+JSONString(lib.got))
			}
		}
		st.Class("raw-control-character-pair")
		if outcomes[0] != outcomes[1] {
			return fmt.Sprintf("a raw control character inside a quoted name is treated differently by the two quote styles: ['%q'] -> %s, [\"%q\"] -> %s", s.Key, outcomes[0], s.Key, outcomes[1])
		}
	}
	return ""
}

func outcomeOf(r retrieveResult) string {
	if r.err != nil {
		return r.err.Error()
	}
	return JSONString(r.got)
}

func init() {
	Register("TestC18_Spellings", checkC18)
}
