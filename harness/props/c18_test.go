package props

import "testing"

func TestC18_Spellings(t *testing.T) {
	checkRapid(t, "C18", "TestC18_Spellings", ruleC18, drawC18)
}
