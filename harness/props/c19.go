package props

import (
	"bytes"
	"encoding/json"
	"fmt"
	"os"
	"os/exec"
	"reflect"
	"strconv"
	"strings"
	"sync"

	"github.com/AsaiYusuke/jsonpath"
	"pgregory.net/rapid"

	"verif/harness/gen"
)

const ruleC19 = "stateful: histories of <= 10 (thorough <= 30) Parse calls drawn from a pool of (path, config) descriptors: valid paths; paths failing at every grammar action (bad index integer, bad float, bad regexp, bad quoted name, unknown function, script, value-group operand, two '@' operands, trailing garbage after a prefix that already built nodes, garbage inside a nested filter); configs none / {f1=A} / {f1=B} (same name, different function) / {g1} / accessor / accessor+{f1=A}; plus 'modify the Config after Parse, then call the earlier function', Parse with two Configs, Parse with the history's own []Config spread (configs[k:]...) and functions registered on its elements between calls, and Configs derived from another by copying the value and calling a setter on the copy. " +
	"Oracle: the outcome of every call (nil or error type + text, and the returned function's behaviour on three probe documents: values, Accessor-ness, which f1 ran) equals the outcome of the same descriptor as the FIRST call of a fresh process (one exec per descriptor, cached). " +
	"Non-trivial: a failing call is followed by a call with a different config, or a configured call by an unconfigured one using the same function name. Distinct = distinct history. Config modifications include an aggregate function re-registered alone under its name."

var c19Paths = []string{
	// valid
	"$", "$.a", "$.a.f1()", "$.*.f1()", "$.a.g1()", "$.*.g1()", "$[?(@.f1())]", "$[?(@.a.f1() == 1)]", "$..a", "$[0,1]", "$['a','b']",
	"$[?(@.a > 1 && $.b)]", "[?(@.a)].a", "[?(@.a == 1)]", "[?(@.b)]..a", "[?(@.a)]", "[0][?(@.a)]", "$[?(@.a == 'x' || !@.b)]", "$.a[0:2].f1()", "$[?($.a.g1() == 2)]", "$..[?(@.a)].a", "a.b", "$[*,*]", "$.f1()", "$.g1().f1()",
	// failing at each action
	"$[99999999999999999999]", "$.a[0:99999999999999999999]", "$.a[0,1:99999999999999999999].b", "$[?(@.a == 1e400)]", "$[?($.a.f1() == 1e400)]",
	"$[?(@.a =~ /[/)]", "$.a[?(@.b =~ /(/ && @.c)]", "$['a\tb']", "$.a[\"b\tc\"].d", "$.a.zz()", "$.a.f1().zz()", "$.zz().f1()", "$[?(@.a == 1 && @.zz())]",
	"$[(1)]", "$.a[(@.length-1)].b", "$[?(@.* == 1)]", "$[?(@.a == 1 && @..b > 2)]", "$[?(@.a == @.b)]", "$[?($.a == 1 || @.a != @.b)]",
	"$.a.b[0] x", "$.a['b',", "$[?(@.a[?(@.b == 1) x])]", "$[?(@.a == 1 && )]", "$.a.f1() x", "$[?(@.a.f1() == 1)] y", "$.a[0:1:2:3]", "", "@", "$[?(@.a == 'x)]",
	"$[?(@.a.g1().g1() == 1)]", "$[?(1 < 2)]", "$[?($.a > $.b)]",
	// backslash sequences inside string literals and regular expressions (whatever they mean, they mean it on every call)
	"$[::5]", "$[0:10:5]", "$[9:0:-4]", "$[*][::5]",
	`$[?(@.a == 'x\ny')]`, `$[?(@.a == "x\ty")]`, `$[?(@.a == 'x\\ny')]`, `$[?(@.a == 'x\'y')]`, `$[?(@.a =~ /x\ny/)]`, `$[?(@.a == 'x\u0041y')]`,
}

const c19Configs = 6

type c19Desc struct {
	Path string
	Cfg  int
}

func c19Descriptors() []c19Desc {
	var out []c19Desc
	for _, p := range c19Paths {
		for k := 0; k < c19Configs; k++ {
			out = append(out, c19Desc{p, k})
		}
	}
	return out
}

// All taggers are closures of ONE function literal (not inlined, so they share a code pointer
// and differ only in what they capture) — the usual shape of user functions built by a helper.
//
//go:noinline
func c19Tagger(tag string) func(interface{}) (interface{}, error) {
	return func(v interface{}) (interface{}, error) { return []interface{}{tag, v}, nil }
}

func c19Len(vs []interface{}) (interface{}, error) { return float64(len(vs)), nil }

// c19Config builds the Config of a descriptor; ok=false means "call Parse without a config".
func c19Config(k int) (cfg *jsonpath.Config, ok bool) {
	c := &jsonpath.Config{}
	switch k {
	case 0:
		return nil, false
	case 1:
		c.SetFilterFunction("f1", c19Tagger("f1A"))
	case 2:
		c.SetFilterFunction("f1", c19Tagger("f1B"))
	case 3:
		c.SetAggregateFunction("g1", c19Len)
	case 4:
		c.SetAccessorMode()
	case 5:
		c.SetAccessorMode()
		c.SetFilterFunction("f1", c19Tagger("f1A"))
	}
	return c, true
}

var c19Probes = []string{
	`{"a":[1,2,3],"b":{"a":"x"}}`,
	`[{"a":1,"b":2},{"a":2},{"b":{"a":[3]}}]`,
	`{"a":{"b":[{"c":1}]},"f1":1}`,
	`[0,1,2]`, `[0,1,2,3,4,5,6,7,8,9,10,11]`, `[[0],[0,1,2,3,4,5,6,7,8,9,10,11,12,13],[0,1,2]]`,
	`[{"a":"x\ny","i":0},{"a":"xny","i":1},{"a":"x\ty","i":2},{"a":"xty","i":3},{"a":"x\\ny","i":4},{"a":"x'y","i":5},{"a":"xAy","i":6},{"a":"xu0041y","i":7}]`,
}

// c19Inconsistent is set when a parsed function answered differently for one probe document
// depending on which probes it had seen before.
var c19Inconsistent string

// c19Behaviour describes what a parsed function does on the probe documents. The probes are
// evaluated in order and then once more in reverse order: the answer for a document must not
// depend on the documents the function saw before.
func c19Behaviour(f func(interface{}) ([]interface{}, error)) string {
	var sb strings.Builder
	one := func(p string) string {
		got, err := f(gen.MustDecode(p, false))
		if err != nil {
			return fmt.Sprintf("|%s: %s", reflect.TypeOf(err).Name(), err.Error())
		}
		return "|" + JSONString(got)
	}
	first := make([]string, len(c19Probes))
	for i, p := range c19Probes {
		first[i] = one(p)
		sb.WriteString(first[i])
	}
	for i := len(c19Probes) - 1; i >= 0; i-- {
		if again := one(c19Probes[i]); again != first[i] && c19Inconsistent == "" {
			c19Inconsistent = fmt.Sprintf("a parsed function answered %s for the document %s and, after it had been called on other documents, %s", first[i], c19Probes[i], again)
		}
	}
	return sb.String()
}

// c19ConfigCopies: Config values derived from one base by plain assignment, each registering one
// more function of its own: whatever the number of functions the base already holds, a function
// registered through a copy is found through that copy afterwards, and registering through one
// copy never removes or replaces what was registered through the other. (Whether the copies
// also SEE each other's registrations is not asked: copies share the function tables the base
// had already allocated.)
func c19ConfigCopies(st *Stats) string {
	doc := gen.MustDecode(`{"a":1}`, false)
	for n := 0; n <= 5; n++ {
		for _, agg := range []bool{false, true} {
			var base jsonpath.Config
			for i := 0; i < n; i++ {
				if agg {
					base.SetAggregateFunction("b"+strconv.Itoa(i), c19Len)
				} else {
					base.SetFilterFunction("b"+strconv.Itoa(i), c19Tagger("base"))
				}
			}
			a, b := base, base
			if agg {
				a.SetAggregateFunction("onlyA", func(vs []interface{}) (interface{}, error) { return "A", nil })
				b.SetAggregateFunction("onlyB", func(vs []interface{}) (interface{}, error) { return "B", nil })
			} else {
				a.SetFilterFunction("onlyA", c19Tagger("A"))
				b.SetFilterFunction("onlyB", c19Tagger("B"))
			}
			type probe struct {
				path string
				cfg  jsonpath.Config
				who  string
				want string // "" = ErrorFunctionNotFound
			}
			wa, wb := `[["A",1]]`, `[["B",1]]`
			if agg {
				wa, wb = `["A"]`, `["B"]`
			}
			for _, p := range []probe{{"$.a.onlyA()", a, "copy A", wa}, {"$.a.onlyB()", b, "copy B", wb}} {
				got, err := jsonpath.Retrieve(p.path, doc, p.cfg)
				st.Eval(1)
				switch {
				case err != nil || JSONString(got) != p.want:
					return fmt.Sprintf("Configs copied from a base with %d functions, each given one function of its own: %s with %s returns (%s, %v), expected %s", n, p.path, p.who, JSONString(got), err, p.want)
				}
			}
		}
	}
	// a base that holds functions of ONE kind only: copies registering a function of the OTHER kind
	// under the same name each keep their own (the base never had a table of that kind to share)
	for n := 1; n <= 3; n++ {
		var base jsonpath.Config
		for i := 0; i < n; i++ {
			base.SetFilterFunction("b"+strconv.Itoa(i), c19Tagger("base"))
		}
		head, tail := base, base
		head.SetAggregateFunction("same", func(vs []interface{}) (interface{}, error) { return "HEAD", nil })
		tail.SetAggregateFunction("same", func(vs []interface{}) (interface{}, error) { return "TAIL", nil })
		for _, p := range []struct {
			cfg  jsonpath.Config
			who  string
			want string
		}{{head, "the first copy", `["HEAD"]`}, {tail, "the second copy", `["TAIL"]`}} {
			got, err := jsonpath.Retrieve("$.a.same()", doc, p.cfg)
			st.Eval(1)
			if err != nil || JSONString(got) != p.want {
				return fmt.Sprintf("two copies of a Config holding %d filter functions each register an aggregate function 'same': $.a.same() with %s returns (%s, %v), expected %s", n, p.who, JSONString(got), err, p.want)
			}
		}
		if _, err := jsonpath.Parse("$.a.same()", base); err == nil || DescribeErr(err).Type != "ErrorFunctionNotFound" {
			return fmt.Sprintf("a Config holding %d filter functions: an aggregate function registered on copies of it is found through the original (%v)", n, err)
		}
	}
	// Configs kept in one slice: a call given the first k of them leaves the others alone
	{
		var a, b jsonpath.Config
		a.SetFilterFunction("fa", c19Tagger("A"))
		b.SetFilterFunction("fb", c19Tagger("B"))
		b.SetAccessorMode()
		all := []jsonpath.Config{a, b}
		_, _ = jsonpath.Parse("$.a", all[:1]...)
		_, _ = jsonpath.Retrieve("$.a", doc, all[:0]...)
		got, err := jsonpath.Retrieve("$.a.fb()", doc, all[1])
		st.Eval(3)
		if err != nil || len(got) != 1 {
			return fmt.Sprintf("Configs kept in one slice: after Parse(path, all[:1]...) the call with all[1] returns (%s, %v)", JSONString(got), err)
		}
		if acc, ok := got[0].(jsonpath.Accessor); !ok || JSONString(acc.Get()) != `["B",1]` {
			return fmt.Sprintf("Configs kept in one slice: after Parse(path, all[:1]...) the call with all[1] (accessor mode, function fb) returns %s", JSONString(got))
		}
		if got0, err0 := jsonpath.Retrieve("$.a.fa()", doc, all[0]); err0 != nil || JSONString(got0) != `[["A",1]]` {
			return fmt.Sprintf("Configs kept in one slice: after Retrieve(path, doc, all[:0]...) the call with all[0] returns (%s, %v)", JSONString(got0), err0)
		}
	}
	st.Class("config-copies-independent")
	return ""
}

func c19Outcome(d c19Desc) (string, func(interface{}) ([]interface{}, error), *jsonpath.Config) {
	cfg, _ := c19Config(d.Cfg)
	return c19OutcomeWith(d, cfg)
}

// c19OutcomeWith parses the descriptor's path with the given Config object (nil: no Config).
func c19OutcomeWith(d c19Desc, cfg *jsonpath.Config) (string, func(interface{}) ([]interface{}, error), *jsonpath.Config) {
	ok := cfg != nil
	var f func(interface{}) ([]interface{}, error)
	var err error
	if ok {
		f, err = jsonpath.Parse(d.Path, *cfg)
	} else {
		f, err = jsonpath.Parse(d.Path)
	}
	if err != nil {
		if f != nil {
			return "function AND error: " + err.Error(), nil, cfg
		}
		return "error " + reflect.TypeOf(err).String() + ": " + err.Error(), nil, cfg
	}
	if f == nil {
		return "(nil, nil)", nil, cfg
	}
	return "ok" + c19Behaviour(f), f, cfg
}

var c19BaseMu sync.Mutex
var c19Base = map[int]string{}

// c19Baseline returns the first-call outcome of descriptor i in a fresh process.
func c19Baseline(i int) (string, error) {
	c19BaseMu.Lock()
	defer c19BaseMu.Unlock()
	if s, ok := c19Base[i]; ok {
		return s, nil
	}
	bin := os.Getenv("VERIF_BIN")
	if bin == "" {
		var err error
		bin, err = os.Executable()
		if err != nil {
			return "", err
		}
	}
	cmd := exec.Command(bin, "-test.run", "^TestC19_Baseline$", "-test.v")
	cmd.Env = append(os.Environ(), "VERIF_C19_DESC="+strconv.Itoa(i), "VERIF_STATS_DIR=", "VERIF_JOURNAL=", "VERIF_FAIL_OUT=")
	var buf bytes.Buffer
	cmd.Stdout, cmd.Stderr = &buf, &buf
	runErr := cmd.Run()
	out := buf.String()
	const marker = "C19-BASELINE:"
	j := strings.Index(out, marker)
	if j < 0 {
		if runErr != nil {
			// the fresh process died (e.g. fatal stack overflow inside Parse): that is the baseline outcome
			s := "process died: " + firstLine(out)
			c19Base[i] = s
			return s, nil
		}
		return "", fmt.Errorf("no baseline marker in output: %s", out)
	}
	line := out[j+len(marker):]
	if k := strings.IndexByte(line, '\n'); k >= 0 {
		line = line[:k]
	}
	var s string
	if err := json.Unmarshal([]byte(line), &s); err != nil {
		return "", err
	}
	c19Base[i] = s
	return s, nil
}

func firstLine(s string) string {
	for _, l := range strings.Split(s, "\n") {
		if strings.Contains(l, "fatal error") || strings.Contains(l, "panic") {
			return l
		}
	}
	if len(s) > 120 {
		return s[:120]
	}
	return s
}

func applyC19Mod(cfg *jsonpath.Config, how int) {
	switch how {
	case 0:
		cfg.SetFilterFunction("f1", c19Tagger("f1-REPLACED"))
	case 1:
		cfg.SetAccessorMode()
	case 3:
		// an aggregate function alone, re-registered under its name: nothing else is touched, so
		// whatever the library derived from the Config earlier has no other reason to be rebuilt
		cfg.SetAggregateFunction("g1", func([]interface{}) (interface{}, error) { return "g1-REPLACED-ALONE", nil })
	default:
		cfg.SetAggregateFunction("g1", func([]interface{}) (interface{}, error) { return "g1-REPLACED", nil })
		cfg.SetFilterFunction("zz", c19Tagger("zz"))
	}
}

func drawC19(rt *rapid.T) *Case {
	descs := c19Descriptors()
	maxOps := 10
	if tierThorough() {
		maxOps = 30
	}
	n := 2 + gen.Uniform(rt, "nops", maxOps-1)
	c := &Case{}
	for i := 0; i < n; i++ {
		if i > 0 && gen.Uniform(rt, "opkind", 6) == 0 {
			c.Ops = append(c.Ops, Op{Kind: "modcfg", A: int(rapid.Uint32().Draw(rt, "which") % 1000), B: gen.Uniform(rt, "how", 4)})
			continue
		}
		// bias towards alternating failing / valid and different configs
		if i > 0 && gen.Uniform(rt, "twoconfigs", 8) == 0 {
			// Parse(path, cfgA, cfgB): whatever it means, it must not change cfgA or cfgB
			c.Ops = append(c.Ops, Op{Kind: "parse2", A: gen.Uniform(rt, "desc", len(descs)), B: 1 + gen.Uniform(rt, "second", c19Configs-1)})
			continue
		}
		if i > 0 && gen.Uniform(rt, "slice", 8) == 0 {
			// the history's own []Config, passed with "configs[k:]...", and functions registered on its
			// elements between calls
			if gen.Uniform(rt, "slicemod", 3) == 0 {
				c.Ops = append(c.Ops, Op{Kind: "modslice", A: gen.Uniform(rt, "elem", c19Configs), B: gen.Uniform(rt, "how", 4)})
			} else {
				c.Ops = append(c.Ops, Op{Kind: "spread", A: gen.Uniform(rt, "desc", len(descs))})
			}
			continue
		}
		if i > 0 && gen.Uniform(rt, "derive", 10) == 0 {
			// derived := base (a copy of the Config value), then a setter on the copy only
			c.Ops = append(c.Ops, Op{Kind: "derive", A: 1 + gen.Uniform(rt, "base", c19Configs-1), B: gen.Uniform(rt, "what", 2)})
			continue
		}
		// B = 1: a Config object built for this call only; B = 0: the history's own object for that
		// configuration, reused by every call that names it (as a program would)
		private := 0
		if gen.Uniform(rt, "privatecfg", 10) < 3 {
			private = 1
		}
		c.Ops = append(c.Ops, Op{Kind: "parse", A: gen.Uniform(rt, "desc", len(descs)), B: private})
	}
	c.Path = fmt.Sprintf("history of %d operations", len(c.Ops))
	return c
}

// c19Ring remembers the last descriptors parsed in this process: state leaking between Parse
// calls also leaks between generated cases, so a failing case is only reproducible in a fresh
// process together with the calls that preceded it. The ring is saved as the case's prefix
// (c.Ints) when a violation is reported and re-executed first on replay.
var c19Ring []int

// ring entries >= these bases stand for the other operation kinds (replayed on one []Config)
const (
	c19RingSpread   = 1000000
	c19RingModSlice = 2000000
	c19RingDerive   = 3000000
)

// c19Remember keeps every descriptor once, ordered by its last use: whatever state a call left
// behind, the call that last set it and everything that ran after it are preserved, while the
// thousands of repeated candidates rapid executes during shrinking cannot push it out.
func c19Remember(i int) {
	for k, v := range c19Ring {
		if v == i {
			c19Ring = append(c19Ring[:k:k], c19Ring[k+1:]...)
			break
		}
	}
	c19Ring = append(c19Ring, i)
}

func checkC19(c *Case, st *Stats) string {
	descs := c19Descriptors()
	if len(c.Ints) > 0 && len(c19Ring) == 0 {
		// replay in a fresh process: rebuild the state the original process was in
		replaySlice := make([]jsonpath.Config, c19Configs)
		for k := 1; k < c19Configs; k++ {
			cfg, _ := c19Config(k)
			replaySlice[k] = *cfg
		}
		for _, i := range c.Ints {
			switch {
			case i >= c19RingDerive:
				if base, _ := c19Config((i - c19RingDerive) / 10 % c19Configs); base != nil {
					derived := *base
					derived.SetAccessorMode()
					_, _ = jsonpath.Parse("$.a.f1().g1()", derived)
				}
			case i >= c19RingModSlice:
				applyC19Mod(&replaySlice[(i-c19RingModSlice)/10%c19Configs], (i-c19RingModSlice)%10)
			case i >= c19RingSpread:
				d := descs[(i-c19RingSpread)%len(descs)]
				_, _ = jsonpath.Parse(d.Path, replaySlice[d.Cfg:]...)
			default:
				_, _, _ = c19Outcome(descs[i%len(descs)])
			}
			c19Remember(i)
		}
	}
	prefix := append([]int(nil), c19Ring...)
	msg := checkC19Ops(c, st, descs)
	if msg != "" && len(c.Ints) == 0 {
		c.Ints = prefix
	}
	return msg
}

func checkC19Ops(c *Case, st *Stats, descs []c19Desc) string {
	type parsed struct {
		desc int
		f    func(interface{}) ([]interface{}, error)
		cfg  *jsonpath.Config
		mods []int // in-place modifications applied to cfg so far
	}
	var live []parsed
	shared := map[int]*jsonpath.Config{} // one Config object per configuration, reused across the history
	sharedCfg := func(k int) *jsonpath.Config {
		if k == 0 {
			return nil
		}
		if shared[k] == nil {
			shared[k], _ = c19Config(k)
		}
		return shared[k]
	}
	// the history's []Config: element k has the content of configuration k (element 0 is the zero Config)
	var cfgSlice []jsonpath.Config
	sliceMods := make([][]int, c19Configs)
	theSlice := func() []jsonpath.Config {
		if cfgSlice == nil {
			cfgSlice = make([]jsonpath.Config, c19Configs)
			for k := 1; k < c19Configs; k++ {
				cfg, _ := c19Config(k)
				cfgSlice[k] = *cfg
			}
		}
		return cfgSlice
	}
	hist := ""
	prevFailed, prevCfg := false, -1
	nontrivial := false
	for step, op := range c.Ops {
		switch op.Kind {
		case "parse":
			i := op.A % len(descs)
			d := descs[i]
			Journal(c.Check, d.Path, "", fmt.Sprintf("cfg=%d", d.Cfg))
			want, err := c19Baseline(i)
			if err != nil {
				return "harness: baseline of descriptor failed: " + err.Error()
			}
			var got string
			var f func(interface{}) ([]interface{}, error)
			var cfg *jsonpath.Config
			private := op.B == 1
			if private {
				got, f, cfg = c19Outcome(d)
			} else {
				got, f, cfg = c19OutcomeWith(d, sharedCfg(d.Cfg))
			}
			c19Remember(i)
			st.Eval(1)
			hist += fmt.Sprintf("Parse(%q, cfg%d) ", d.Path, d.Cfg)
			if got != want {
				return fmt.Sprintf("operation %d: Parse(%q, config %d) after the history [%s] gives\n   %s\nbut as the first call of a fresh process it gives\n   %s", step, d.Path, d.Cfg, hist, got, want)
			}
			if f != nil {
				if private {
					live = append(live, parsed{desc: i, f: f, cfg: cfg}) // only private Configs are modified later
				}
			}
			failed := f == nil
			if prevCfg >= 0 && ((prevFailed && d.Cfg != prevCfg) || (prevCfg != 0 && d.Cfg == 0 && strings.Contains(d.Path, "f1"))) {
				nontrivial = true
			}
			prevFailed, prevCfg = failed, d.Cfg
			label := strings.SplitN(got, "|", 2)[0]
			if k := strings.IndexByte(label, ':'); k > 0 {
				label = label[:k]
			}
			st.Class("outcome:" + label)
		case "parse2":
			i := op.A % len(descs)
			d := descs[i]
			a, b := sharedCfg(d.Cfg), sharedCfg(op.B)
			if a == nil || b == nil {
				continue
			}
			f, err := jsonpath.Parse(d.Path, *a, *b)
			st.Eval(1)
			st.Class("op:parse-with-two-configs")
			hist += fmt.Sprintf("Parse(%q, cfg%d, cfg%d) ", d.Path, d.Cfg, op.B)
			if msg := parseOutcome(f, err); msg != "" {
				return fmt.Sprintf("operation %d: Parse with two Configs: %s", step, msg)
			}
		case "spread":
			i := op.A % len(descs)
			d := descs[i]
			sl := theSlice()
			Journal(c.Check, d.Path, "", fmt.Sprintf("cfg=%d spread", d.Cfg))
			f, err := jsonpath.Parse(d.Path, sl[d.Cfg:]...)
			c19Remember(c19RingSpread + i)
			st.Eval(1)
			st.Class("op:parse-with-spread-slice")
			hist += fmt.Sprintf("Parse(%q, configs[%d:]...) ", d.Path, d.Cfg)
			if msg := parseOutcome(f, err); msg != "" {
				return fmt.Sprintf("operation %d: Parse with a spread []Config: %s", step, msg)
			}
			if len(sliceMods[d.Cfg]) == 0 {
				// the first element decides (documented: one Config); unmodified it is configuration d.Cfg
				want, berr := c19Baseline(i)
				if berr != nil {
					return "harness: baseline of descriptor failed: " + berr.Error()
				}
				got := ""
				switch {
				case err != nil:
					got = "error " + reflect.TypeOf(err).String() + ": " + err.Error()
				default:
					got = "ok" + c19Behaviour(f)
				}
				if got != want {
					return fmt.Sprintf("operation %d: Parse(%q, configs[%d:]...) after the history [%s] gives\n   %s\nbut Parse with that one Config as the first call of a fresh process gives\n   %s", step, d.Path, d.Cfg, hist, got, want)
				}
			}
		case "modslice":
			sl := theSlice()
			k := op.A % len(sl)
			applyC19Mod(&sl[k], op.B)
			c19Remember(c19RingModSlice + k*10 + op.B)
			sliceMods[k] = append(sliceMods[k], op.B)
			hist += fmt.Sprintf("modify configs[%d] (%d) ", k, op.B)
			st.Class("op:modify-slice-element")
		case "derive":
			base := sharedCfg(op.A)
			if base == nil {
				continue
			}
			derived := *base
			what := "SetAccessorMode"
			switch {
			case op.B == 0 && op.A != 4 && op.A != 5:
				derived.SetAccessorMode()
			case op.A == 3 || op.A == 4:
				// the base has no filter function table yet: the copy gets its own
				what = "SetFilterFunction(f1)"
				derived.SetFilterFunction("f1", c19Tagger("f1-DERIVED"))
			default:
				what = "SetAggregateFunction(g1)"
				derived.SetAggregateFunction("g1", func([]interface{}) (interface{}, error) { return "g1-DERIVED", nil })
			}
			_, _ = jsonpath.Parse("$.a.f1().g1()", derived)
			c19Remember(c19RingDerive + op.A*10 + op.B)
			hist += fmt.Sprintf("derived := cfg%d; derived.%s; Parse(.., derived) ", op.A, what)
			st.Class("op:derive-config-by-copy")
		case "modcfg":
			if len(live) == 0 {
				continue
			}
			p := live[op.A%len(live)]
			if p.cfg == nil {
				continue
			}
			applyC19Mod(p.cfg, op.B)
			want, err := c19Baseline(p.desc)
			if err != nil {
				return "harness: baseline of descriptor failed: " + err.Error()
			}
			got := "ok" + c19Behaviour(p.f)
			st.Eval(1)
			hist += fmt.Sprintf("modify-config-of(%q) ", descs[p.desc].Path)
			st.Class("op:modify-config-then-call")
			if got != want {
				return fmt.Sprintf("operation %d: after modifying the Config it was parsed with, the function for %q (config %d) behaves\n   %s\ninstead of\n   %s", step, descs[p.desc].Path, descs[p.desc].Cfg, got, want)
			}
			// Parse the same path again with the Config as it is NOW: the outcome must be that of a
			// Config freshly built with the same content (other maps, same functions), not the
			// outcome the earlier Parse with this Config object had.
			path := descs[p.desc].Path
			now := func(cfg jsonpath.Config) string {
				f, err := jsonpath.Parse(path, cfg)
				if err != nil {
					return "error " + reflect.TypeOf(err).String() + ": " + err.Error()
				}
				return "ok" + c19Behaviour(f)
			}
			fresh, _ := c19Config(descs[p.desc].Cfg)
			if fresh == nil {
				fresh = &jsonpath.Config{}
			}
			for _, m := range p.mods {
				applyC19Mod(fresh, m)
			}
			applyC19Mod(fresh, op.B)
			gotNow, wantNow := now(*p.cfg), now(*fresh)
			st.Class("op:reparse-with-modified-config")
			if gotNow != wantNow {
				return fmt.Sprintf("operation %d: Parse(%q) with a Config modified in place gives\n   %s\nbut with an equal, freshly built Config\n   %s", step, path, gotNow, wantNow)
			}
			live[op.A%len(live)].mods = append(live[op.A%len(live)].mods, op.B)
		}
	}
	if nontrivial {
		st.Class("nontrivial")
		st.NonTrivialCase(fmt.Sprint(c.Ops), func() interface{} {
			return map[string]interface{}{"history": hist}
		})
	}
	if c19Inconsistent != "" {
		msg := c19Inconsistent
		c19Inconsistent = ""
		return msg
	}
	if len(c.Ops)%4 == 0 {
		if msg := c19ConfigCopies(st); msg != "" {
			return msg
		}
	}
	return ""
}

func init() {
	Register("TestC19_History", checkC19)
}
