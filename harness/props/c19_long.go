package props

import (
	"fmt"
	"reflect"

	"github.com/AsaiYusuke/jsonpath"
	"pgregory.net/rapid"

	"verif/harness/gen"
	"verif/harness/spec"
)

// TestC19_LongRun: Parse depends only on its own arguments however long the process has been
// running. Thousands of distinct paths are parsed in one process without a Config (through
// Parse and through Retrieve), each compared with SPEC; a sample of them is remembered and
// handed to the library again after 70 ... 4200 further distinct paths, on the same document,
// and must still give what SPEC says. Whatever the library keeps between calls (a table of
// parsed functions, of regular expressions, of anything) must never answer for another path.

const ruleC19Long = "one process parses thousands of distinct function-free paths (G-AST, canonical or styled spelling) with no Config argument, through Parse+call or through Retrieve (chosen by a hash of the path), 1 in 3 preceded by a twin path that differs by one character; every evaluation is compared with SPEC. " +
	"A sample of the cases is remembered and evaluated again through the same entry point after >= 70 / 300 / 1100 / 2100 / 4200 further distinct paths were parsed; the outcome must again be SPEC's. " +
	"On failure the replay file carries every Parse/Retrieve call made since the remembered path was first parsed (prefix), so a fresh process reproduces the history. " +
	"Non-trivial: a revisit after >= 1100 distinct paths whose SPEC result is non-empty. Distinct = distinct revisited (path, document)."

func drawC19Long(rt *rapid.T) *Case {
	g := gen.NewG(rt, gen.PathOpts{Funcs: false, RootOmit: true, MinSteps: 1, LongPaths: true})
	p := g.Path()
	var r gen.Rendered
	if gen.Uniform(rt, "styled", 3) == 0 {
		r = gen.Render(p, gen.RapidStyle{T: rt})
	} else {
		r = gen.Render(p, gen.Canon)
	}
	c := &Case{Path: r.Text, AST: p, Doc: g.Doc(p), UseNumber: rapid.Bool().Draw(rt, "usenumber")}
	if gen.Uniform(rt, "twin", 3) == 0 {
		c.Twin = gen.TwinText(rt, r.Text)
	}
	c.Ints = []int{gen.Uniform(rt, "remember", 40), []int{70, 300, 1100, 2100, 4200}[gen.Uniform(rt, "age", 5)], 0}
	if gen.Uniform(rt, "big", 25) == 0 {
		// somebody evaluates a path with thousands of results right before
		c.Ints[2] = []int{1100, 4500, 9000, 70000}[gen.Uniform(rt, "bigsize", 4)]
	}
	return c
}

type longEntry struct {
	c        *Case
	logIndex int // index in longLog of the call that first parsed it
	distinct int // number of distinct paths seen when it was remembered
	age      int // revisit once this many further distinct paths have been parsed
}

var (
	longLog      []PrefixCall // every config-less call of this process, in order
	longBase     int          // absolute index of longLog[0]
	longDistinct = map[string]struct{}{}
	longMemory   []*longEntry
)

const longLogMax = 12000

func longNote(path string, retrieve bool) int {
	longLog = append(longLog, PrefixCall{Path: path, Retrieve: retrieve})
	longDistinct[path] = struct{}{}
	return longBase + len(longLog) - 1
}

// bareCall hands path to the library with no Config: Parse + call, or Retrieve.
func bareCall(path string, retrieve bool, doc interface{}) ([]interface{}, error, error) {
	if retrieve {
		got, err := jsonpath.Retrieve(path, doc)
		if err != nil && !DescribeErr(err).IsRuntime() {
			return nil, nil, err
		}
		return got, err, nil
	}
	f, err := jsonpath.Parse(path)
	if err != nil {
		return nil, nil, err
	}
	got, rerr := f(doc)
	return got, rerr, nil
}

func againstSpec(c *Case, got []interface{}, rerr error, what string) string {
	res := spec.Eval(c.AST, c.Document(), gen.PureFuncs{})
	if res.Unspecified {
		return ""
	}
	if len(res.Nodes) == 0 {
		if rerr == nil {
			return fmt.Sprintf("%s: SPEC selects nothing but the library returned %s", what, JSONString(got))
		}
		if !DescribeErr(rerr).IsRuntime() {
			return fmt.Sprintf("%s: not a documented runtime error: %T %v", what, rerr, rerr)
		}
		return ""
	}
	if rerr != nil {
		return fmt.Sprintf("%s: SPEC selects %s but the library failed: %v", what, JSONString(res.Values()), rerr)
	}
	if !reflect.DeepEqual(got, res.Values()) {
		return fmt.Sprintf("%s: result differs from SPEC:\n   got  %s\n   want %s", what, JSONString(got), JSONString(res.Values()))
	}
	return ""
}

func checkC19Long(c *Case, st *Stats) string {
	docText := c.Doc.JSON()
	Journal(c.Check, c.Path, docText, flagString(c))
	api := pickAPI(c.Path+"#", false)
	if c.Twin != "" {
		longNote(c.Twin, api.retrieve)
		_, _, _ = bareCall(c.Twin, api.retrieve, c.Document())
		st.Class("preceded-by-twin-path")
	}
	if len(c.Ints) >= 3 && c.Ints[2] > 0 {
		big := bigArray(c.Ints[2] / 10)
		if res, err := jsonpath.Retrieve("$[*,*,*,*,*,*,*,*,*,*]", big); err != nil || len(res) != len(big)*10 {
			return fmt.Sprintf("$[*,*,*,*,*,*,*,*,*,*] on an array of %d numbers returned %d values, %v", len(big), len(res), err)
		}
		longNote("$[*,*,*,*,*,*,*,*,*,*]", true)
		st.Class("preceded-by-a-big-result")
	}
	idx := longNote(c.Path, api.retrieve)
	got, rerr, perr := bareCall(c.Path, api.retrieve, c.Document())
	st.Eval(1)
	if api.retrieve {
		st.Class("api:Retrieve(no Config)")
	} else {
		st.Class("api:Parse(no Config)")
	}
	fail := func(msg string) string {
		if c.DocKind != "revisit" {
			// the history that leads here: every call since this path was first handed to the library
			// (generated paths repeat), or the whole log
			first := 0
			for i := range longLog {
				if longLog[i].Path == c.Path {
					first = i
					break
				}
			}
			c.Prefix = append([]PrefixCall(nil), longLog[first:len(longLog)-1]...)
			c.DocKind = "revisit"
		}
		return msg
	}
	if perr != nil {
		return fail(fmt.Sprintf("generated path was rejected by Parse: %v", perr))
	}
	if msg := againstSpec(c, got, rerr, "evaluation"); msg != "" {
		return fail(msg)
	}
	if c.DocKind == "revisit" {
		// a replayed revisit: the prefix has re-created the history, the evaluation above was the revisit
		return ""
	}
	// remember some cases
	if len(c.Ints) >= 2 && c.Ints[0] == 0 && len(longMemory) < 64 {
		longMemory = append(longMemory, &longEntry{c: c, logIndex: idx, distinct: len(longDistinct), age: c.Ints[1]})
	}
	// revisit the remembered cases that are old enough
	for i := 0; i < len(longMemory); i++ {
		e := longMemory[i]
		if len(longDistinct)-e.distinct < e.age {
			continue
		}
		longMemory = append(longMemory[:i], longMemory[i+1:]...)
		i--
		if e.logIndex < longBase {
			continue // its history has left the log
		}
		eapi := pickAPI(e.c.Path+"#", false)
		g2, r2, p2 := bareCall(e.c.Path, eapi.retrieve, e.c.Document())
		st.Eval(1)
		st.Class(fmt.Sprintf("revisit-after>=%d-distinct-paths", e.age))
		msg := ""
		if p2 != nil {
			msg = fmt.Sprintf("a path accepted earlier in this process is now rejected: %v", p2)
		} else {
			msg = againstSpec(e.c, g2, r2, fmt.Sprintf("evaluated again after %d further distinct paths had been parsed in the process", len(longDistinct)-e.distinct))
		}
		if msg != "" {
			// report the revisited case, with the history that leads to it
			prefix := append([]PrefixCall(nil), longLog[e.logIndex-longBase:]...)
			*c = *e.c
			c.DocKind = "revisit"
			c.Twin = ""
			c.Prefix = prefix
			return msg
		}
		if e.age >= 1100 {
			st.Class("nontrivial")
			st.NonTrivialCase(e.c.Path+"\x00"+e.c.Doc.JSON(), func() interface{} {
				return map[string]interface{}{"path": e.c.Path, "doc": e.c.Doc.JSON(), "revisited_after_distinct_paths": len(longDistinct) - e.distinct, "result": JSONString(g2), "error": fmt.Sprint(r2)}
			})
		}
	}
	if len(longLog) > longLogMax {
		drop := len(longLog) - longLogMax*3/4
		longLog = append([]PrefixCall(nil), longLog[drop:]...)
		longBase += drop
	}
	return ""
}

func init() {
	Register("TestC19_LongRun", checkC19Long)
}
