package props

import (
	"encoding/json"
	"fmt"
	"os"
	"strconv"
	"testing"
)

func TestC19_History(t *testing.T) {
	checkRapid(t, "C19", "TestC19_History", ruleC19, drawC19)
}

func TestC19_LongRun(t *testing.T) {
	checkRapid(t, "C19", "TestC19_LongRun", ruleC19Long, drawC19Long)
}

// TestC19_Baseline prints the outcome of one descriptor as the first library call of this
// (fresh) process.
func TestC19_Baseline(t *testing.T) {
	s := os.Getenv("VERIF_C19_DESC")
	if s == "" {
		t.Skip("VERIF_C19_DESC not set")
	}
	i, _ := strconv.Atoi(s)
	descs := c19Descriptors()
	out, _, _ := c19Outcome(descs[i%len(descs)])
	b, _ := json.Marshal(out)
	fmt.Printf("C19-BASELINE:%s\n", b)
}
