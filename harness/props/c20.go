package props

import (
	"bytes"
	"encoding/json"
	"fmt"
	"github.com/AsaiYusuke/jsonpath"
	"reflect"

	"pgregory.net/rapid"

	"verif/harness/gen"
	"verif/harness/spec"
)

const ruleC20 = "C01 paths (weight on filters with every comparator kind, '..', wildcards, functions) on generated documents in which a random non-empty subset of leaves and some sub-containers is replaced by values of 31 non-JSON Go types (struct{}, structs, pointers, typed nil, typed/named maps and slices, nil maps/slices, arrays, ints, float32, complex, func, chan, []byte, json.RawMessage, error, Duration, map[interface{}]interface{}, defined types over float64/string/bool). " +
	"Oracle: SPEC with the rule 'anything that is not map[string]interface{} / []interface{} is a leaf': returned by identity, exists, deep-equal per reflect.DeepEqual in path-vs-path ==, passed to functions unchanged, navigation into it = ErrorTypeUnmatched naming its Go type, literal/ordering/regex comparisons do not match; no panic. " +
	"Non-trivial: >=1 opaque value is examined by a step, an operand or a function (measured by SPEC). Distinct = distinct (path, document)."

func drawC20(rt *rapid.T) *Case {
	g := gen.NewG(rt, gen.PathOpts{Funcs: true, RootOmit: true, FuncPct: 30, OperandFuncPct: 20, FilterHeavy: gen.Uniform(rt, "heavy", 2) == 0, LongPaths: true})
	p := g.Path()
	r := gen.Render(p, gen.Canon)
	d := g.Opaquify(g.Doc(p))
	return &Case{Path: r.Text, AST: p, Texts: r.Steps, Doc: d, UseNumber: rapid.Bool().Draw(rt, "usenumber"), Funcs: true}
}

// deepSame is reflect.DeepEqual over JSON structure, with identity for reference-like opaque
// leaves (func, chan, map, slice, pointer), which DeepEqual cannot or should not compare by value.
func deepSame(a, b interface{}) bool {
	switch ta := a.(type) {
	case map[string]interface{}:
		tb, ok := b.(map[string]interface{})
		if !ok || len(ta) != len(tb) {
			return false
		}
		for k, va := range ta {
			vb, ok := tb[k]
			if !ok || !deepSame(va, vb) {
				return false
			}
		}
		return true
	case []interface{}:
		tb, ok := b.([]interface{})
		if !ok || len(ta) != len(tb) {
			return false
		}
		for i := range ta {
			if !deepSame(ta[i], tb[i]) {
				return false
			}
		}
		return true
	}
	if a == nil || b == nil {
		return a == nil && b == nil
	}
	if fa, ok := a.(float64); ok {
		// NaN (the output of the catalogue function "fnan") is the same argument as NaN
		if fb, ok := b.(float64); ok && fa != fa && fb != fb {
			return true
		}
	}
	va, vb := reflect.ValueOf(a), reflect.ValueOf(b)
	if va.Type() != vb.Type() {
		return false
	}
	// wrappers built by the harness around a document of their own (two builds of one case give
	// two wrappers): the same if what they hold is the same
	switch ta := a.(type) {
	case *interface{}:
		if tb := b.(*interface{}); ta != tb {
			return ta != nil && tb != nil && deepSame(*ta, *tb)
		}
		return true
	case *map[string]interface{}:
		if tb := b.(*map[string]interface{}); ta != tb {
			return ta != nil && tb != nil && deepSame(*ta, *tb)
		}
		return true
	case *[]interface{}:
		if tb := b.(*[]interface{}); ta != tb {
			return ta != nil && tb != nil && deepSame(*ta, *tb)
		}
		return true
	case json.RawMessage:
		return bytes.Equal(ta, b.(json.RawMessage))
	case jsonpath.Accessor:
		tb := b.(jsonpath.Accessor)
		if (ta.Get == nil) != (tb.Get == nil) || (ta.Set == nil) != (tb.Set == nil) {
			return false
		}
		return ta.Get == nil || deepSame(ta.Get(), tb.Get())
	}
	switch va.Kind() {
	case reflect.Func, reflect.Chan, reflect.Map, reflect.Slice, reflect.Ptr, reflect.UnsafePointer:
		if spec.IsOpaque(a) {
			return va.Pointer() == vb.Pointer()
		}
	}
	return reflect.DeepEqual(a, b)
}

// accessorModeAgainstSpec evaluates the case in accessor mode: opaque values are leaves there as
// well. Every result is an Accessor whose Get() is SPEC's value and whose Set is nil exactly for
// values that are not a location of the document; failure iff SPEC selects nothing.
func accessorModeAgainstSpec(c *Case, res *spec.Result, st *Stats) string {
	return accessorModeOnDoc(c, c.Document(), res, st)
}

// accessorModeOnDoc is accessorModeAgainstSpec on a document the caller built.
func accessorModeOnDoc(c *Case, doc interface{}, res *spec.Result, st *Stats) string {
	acc := evalLibrary(c, doc, true)
	st.Eval(1)
	st.Class("accessor-mode")
	if acc.parseErr != nil {
		return fmt.Sprintf("accessor mode: generated path was rejected by Parse: %v", acc.parseErr)
	}
	if len(res.Nodes) == 0 {
		if acc.err == nil {
			return fmt.Sprintf("accessor mode: SPEC selects nothing but the library returned %d accessors %s", len(acc.got), JSONString(acc.got))
		}
		if !DescribeErr(acc.err).IsRuntime() {
			return fmt.Sprintf("accessor mode: not a documented runtime error: %T %v", acc.err, acc.err)
		}
		return ""
	}
	if acc.err != nil {
		return fmt.Sprintf("accessor mode: SPEC selects %s but the library failed: %v", JSONString(res.Values()), acc.err)
	}
	if len(acc.got) != len(res.Nodes) {
		return fmt.Sprintf("accessor mode: %d accessors, SPEC selects %d values", len(acc.got), len(res.Nodes))
	}
	for i, v := range acc.got {
		a, ok := v.(jsonpath.Accessor)
		if !ok {
			return fmt.Sprintf("accessor-mode result %d is %T, not an Accessor", i, v)
		}
		if a.Get == nil {
			return fmt.Sprintf("accessor %d has a nil Get", i)
		}
		if got := a.Get(); !deepSame(got, res.Nodes[i].V) {
			return fmt.Sprintf("accessor %d Get() = %s, SPEC value %s", i, JSONString(got), JSONString(res.Nodes[i].V))
		}
		if (a.Set == nil) == res.Nodes[i].HasLoc {
			return fmt.Sprintf("accessor %d: Set is nil = %v but the value is a location of the document = %v (%s)", i, a.Set == nil, res.Nodes[i].HasLoc, locString(res.Nodes[i].Loc))
		}
	}
	return ""
}

// errorUsableAsValue: the documented error types are plain comparable values (callers compare
// them, collect them in maps); an error that drags an arbitrary document value along panics there.
func errorUsableAsValue(err error) (msg string) {
	defer func() {
		if r := recover(); r != nil {
			msg = fmt.Sprintf("the returned error %T cannot be used as a value (comparing it / using it as a map key panics: %v)", err, r)
		}
	}()
	seen := map[error]int{}
	seen[err]++
	other := err
	if other != err {
		return fmt.Sprintf("the returned error %T is not equal to itself", err)
	}
	return ""
}

func checkC20(c *Case, st *Stats) string {
	docText := c.Doc.JSON()
	Journal(c.Check, c.Path, docText, flagString(c))
	lib := evalLibrary(c, c.Document(), false)
	st.Eval(1)
	if lib.parseErr != nil {
		return fmt.Sprintf("generated path was rejected by Parse: %v", lib.parseErr)
	}
	res := spec.Eval(c.AST, c.Document(), gen.PureFuncs{})
	if res.Unspecified {
		st.Class("unspecified")
		return ""
	}
	if msg := compareCallLogsEq(lib.rec, res, st, c.AST, deepSame); msg != "" {
		return msg
	}
	info := DescribeErr(lib.err)
	if len(res.Nodes) > 0 {
		if lib.err != nil {
			return fmt.Sprintf("SPEC selects %s but the library failed: %v", JSONString(res.Values()), lib.err)
		}
		want := res.Values()
		if len(want) != len(lib.got) {
			return fmt.Sprintf("got %d results %s, want %d %s", len(lib.got), JSONString(lib.got), len(want), JSONString(want))
		}
		for i := range want {
			if !deepSame(lib.got[i], want[i]) {
				return fmt.Sprintf("result %d differs (opaque values must be returned as they are):\n   got  %s\n   want %s", i, JSONString(lib.got), JSONString(want))
			}
		}
		st.Class("outcome:values")
	} else {
		if lib.err == nil {
			return fmt.Sprintf("SPEC selects nothing but the library returned %s", JSONString(lib.got))
		}
		if !info.IsRuntime() {
			return fmt.Sprintf("not a documented runtime error: %T %v", lib.err, lib.err)
		}
		if msg := matchRuntimeError(res, info, c.Texts); msg != "" {
			return msg
		}
		if msg := errorUsableAsValue(lib.err); msg != "" {
			return msg
		}
		st.Class("outcome:" + info.Type)
	}
	if len(c.Path)%3 == 1 {
		if msg := accessorModeAgainstSpec(c, res, st); msg != "" {
			return msg
		}
	}
	for tn, k := range res.TouchedT {
		st.ClassN("touched:"+tn, k)
	}
	if res.Touched > 0 {
		st.Class("nontrivial")
		st.NonTrivialCase(c.Path+"\x00"+docText, func() interface{} {
			return map[string]interface{}{"path": c.Path, "doc": docText, "opaque_values_examined": res.Touched, "result": JSONString(lib.got), "error": info.Text}
		})
	}
	return ""
}

func init() {
	Register("TestC20_Opaque", checkC20)
	exists := &gen.Query{Kind: gen.QExists, P: &gen.Path{Root: gen.RootAt}}
	AddSeed("TestC20_Opaque", &Case{Path: "$[?(@)]", AST: &gen.Path{Steps: []gen.Step{{Kind: gen.KFilter, Q: exists}}},
		Texts: []gen.StepText{{Written: "[?(@)]", Names: []string{"[?(@)]"}}}, Doc: gen.Arr(gen.Opaque("struct{}"), gen.Num(1)), Funcs: true})
}
