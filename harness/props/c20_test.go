package props

import "testing"

func TestC20_Opaque(t *testing.T) {
	checkRapid(t, "C20", "TestC20_Opaque", ruleC20, drawC20)
}
