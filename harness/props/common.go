// Package props holds the executable properties C01..C20 (DESIGN.md §4). Every property is a
// pure function of a serialisable Case; rapid only draws the Case. The same function is used
// by the replay path, which does not involve rapid.
package props

import (
	"encoding/json"
	"fmt"
	"hash/fnv"
	"os"
	"path/filepath"
	"reflect"
	"runtime/debug"
	"sort"
	"strconv"
	"strings"
	"sync"
	"sync/atomic"
	"syscall"
	"testing"
	"time"
	"unicode/utf8"

	"github.com/AsaiYusuke/jsonpath"
	"pgregory.net/rapid"

	"verif/harness/gen"
)

// Case is the serialisable unit of generation, shrinking and replay.
type Case struct {
	Property  string         `json:"property"`
	Check     string         `json:"check"`
	Path      string         `json:"path,omitempty"`
	PathRaw   []byte         `json:"path_raw,omitempty"` // set when Path is not valid UTF-8 (JSON cannot carry it)
	AST       *gen.Path      `json:"ast,omitempty"`
	Texts     []gen.StepText `json:"texts,omitempty"`
	Doc       *gen.DNode     `json:"doc,omitempty"`
	DocText   string         `json:"doc_text,omitempty"` // rendered JSON of Doc (informational) or the document itself when Doc is nil
	UseNumber bool           `json:"use_number,omitempty"`
	Funcs     bool           `json:"funcs,omitempty"`
	Accessor  bool           `json:"accessor,omitempty"`
	Variants  []string       `json:"variants,omitempty"`
	Paths     []string       `json:"paths,omitempty"`
	Docs      []*gen.DNode   `json:"docs,omitempty"`
	Ops       []Op           `json:"ops,omitempty"`
	Ints      []int          `json:"ints,omitempty"`
	Strs      []string       `json:"strs,omitempty"`
	Twin      string         `json:"twin,omitempty"` // a near-identical path handed to the library right before the case's own
	DocKind   string         `json:"doc_kind,omitempty"`
	Prefix    []PrefixCall   `json:"prefix,omitempty"` // Parse calls made in the process right before the case (replayed first)
	Before    []*Case        `json:"before,omitempty"` // the cases the process ran right before this one (replayed first, outcomes ignored)
	Note      string         `json:"violation,omitempty"`
	Expected  string         `json:"expected,omitempty"`
	Got       string         `json:"got,omitempty"`
}

// PrefixCall is one earlier Parse call of the process. A defect that makes Parse depend on
// earlier calls shows up in single-call properties too (thousands of cases share a process);
// such a failure only reproduces in a fresh process together with the calls before it, so the
// last few are saved with the failing case and re-executed first by the replay.
type PrefixCall struct {
	Path     string `json:"path"`
	PathRaw  []byte `json:"path_raw,omitempty"`
	Funcs    bool   `json:"funcs,omitempty"`
	Accessor bool   `json:"accessor,omitempty"`
	Retrieve bool   `json:"retrieve,omitempty"` // the call went through Retrieve (on a null document when replayed)
}

var recentCalls []PrefixCall

const recentCallsMax = 8

func noteParse(path string, funcs, accessor bool) { noteParseVia(path, funcs, accessor, false) }

func noteParseVia(path string, funcs, accessor, retrieve bool) {
	pc := PrefixCall{Path: path, Funcs: funcs, Accessor: accessor, Retrieve: retrieve}
	if !utf8.ValidString(path) {
		pc.PathRaw = []byte(path)
	}
	recentCalls = append(recentCalls, pc)
	if len(recentCalls) > recentCallsMax {
		recentCalls = recentCalls[len(recentCalls)-recentCallsMax:]
	}
}

func replayPrefix(prefix []PrefixCall) {
	for _, pc := range prefix {
		path := pc.Path
		if len(pc.PathRaw) > 0 {
			path = string(pc.PathRaw)
		}
		switch {
		case pc.Retrieve && !pc.Funcs && !pc.Accessor:
			_, _ = jsonpath.Retrieve(path, nil)
		case pc.Retrieve:
			_, _ = jsonpath.Retrieve(path, nil, BuildConfig(nil, pc.Funcs, pc.Accessor))
		case !pc.Funcs && !pc.Accessor:
			_, _ = jsonpath.Parse(path)
		default:
			_, _ = jsonpath.Parse(path, BuildConfig(nil, pc.Funcs, pc.Accessor))
		}
	}
}

// Op is one operation of a history (stateful checks).
type Op struct {
	Kind string `json:"op"`
	A    int    `json:"a,omitempty"`
	B    int    `json:"b,omitempty"`
	S    string `json:"s,omitempty"`
}

// Document returns the decoded document of the case.
func (c *Case) Document() interface{} {
	if c.Doc != nil {
		return c.Doc.Build(c.UseNumber)
	}
	return gen.MustDecode(c.DocText, c.UseNumber)
}

// ---------------------------------------------------------------------------------------
// recording configs

// RecCall is one observed call of a user function.
type RecCall struct {
	Fn  string
	Arg interface{}
	Err bool
}

// Recorder logs the calls of the user functions of one case.
type Recorder struct {
	mu    sync.Mutex
	Calls []RecCall
	Errs  int
	// Reenter, if set, is called (not nested) every time the filter function "fre" runs.
	Reenter func()
	inside  bool
	// PanicNext makes the next user function that is called panic (once): a user function may
	// panic, the caller may recover, and the parsed function must be as good as new afterwards.
	PanicNext int // panic at the PanicNext-th call from now (0 = never)
}

// UserPanic is the value a catalogue function panics with when asked to.
type UserPanic struct{ Fn string }

func (r *Recorder) maybePanic(name string) {
	if r != nil && r.PanicNext > 0 && !r.inside {
		r.PanicNext--
		if r.PanicNext == 0 {
			panic(UserPanic{Fn: name})
		}
	}
}

func (r *Recorder) add(fn string, arg interface{}, failed bool) {
	if r.inside {
		return // a call made by the re-entrant evaluation, not by the call under test
	}
	r.mu.Lock()
	r.Calls = append(r.Calls, RecCall{Fn: fn, Arg: gen.DeepCopy(arg), Err: failed})
	if failed {
		r.Errs++
	}
	r.mu.Unlock()
}

// ByFn groups the logged arguments per function name, in call order.
func (r *Recorder) ByFn() map[string][]interface{} {
	out := map[string][]interface{}{}
	for _, c := range r.Calls {
		out[c.Fn] = append(out[c.Fn], c.Arg)
	}
	return out
}

// BuildConfig returns a Config with the whole function catalogue (if funcs) and accessor mode.
func BuildConfig(rec *Recorder, funcs, accessor bool) jsonpath.Config {
	return BuildConfigOrder(rec, funcs, accessor, false)
}

// BuildConfigOrder is BuildConfig with the order of the Config calls chosen by the caller:
// accessorFirst calls SetAccessorMode before the functions are registered.
func BuildConfigOrder(rec *Recorder, funcs, accessor, accessorFirst bool) jsonpath.Config {
	cfg := jsonpath.Config{}
	if accessor && accessorFirst {
		cfg.SetAccessorMode()
	}
	if funcs && accessorFirst {
		// the aggregate namesake of "fboth" registered BEFORE the filter functions ...
		cfg.SetAggregateFunction("fboth", func(vs []interface{}) (interface{}, error) { return "AGGREGATE-NAMESAKE", nil })
	}
	if funcs {
		for _, name := range gen.FilterNames {
			name := name
			cfg.SetFilterFunction(name, func(v interface{}) (interface{}, error) {
				if name == "fre" && rec != nil && rec.Reenter != nil && !rec.inside {
					rec.inside = true
					rec.Reenter()
					rec.inside = false
				}
				rec.maybePanic(name)
				out, err := gen.ApplyFilter(name, v)
				if name == "fnest" {
					// a user function that runs a JSONPath of its own and hands the inner error on as it is
					out, err = nestedFirst("$.a", v, out, err)
				}
				if rec != nil {
					rec.add(name, v, err != nil)
				}
				return out, err
			})
		}
		for _, name := range gen.AggNames {
			name := name
			cfg.SetAggregateFunction(name, func(vs []interface{}) (interface{}, error) {
				rec.maybePanic(name)
				out, err := gen.ApplyAggregate(name, vs)
				if name == "gnest" {
					out, err = nestedFirst("$[1]", append([]interface{}{}, vs...), out, err)
				}
				if rec != nil {
					rec.add(name, append([]interface{}{}, vs...), err != nil)
				}
				return out, err
			})
		}
	}
	if funcs && !accessorFirst {
		// ... or AFTER them: the order of registration is not part of what a Config says
		cfg.SetAggregateFunction("fboth", func(vs []interface{}) (interface{}, error) { return "AGGREGATE-NAMESAKE", nil })
	}
	if accessor && !accessorFirst {
		cfg.SetAccessorMode()
	}
	return cfg
}

// panickingRetrieval runs a retrieval in which a user function panics at its n-th call; the panic is
// recovered here, as a caller would. Whatever the library was holding at that moment (pooled
// buffers with partial results, flags, locks) must not leak into later calls.
func panickingRetrieval(kind, n int) {
	rec := &Recorder{PanicNext: n}
	paths := []string{"$[*].f1()", "$[?(@.f1())]", "$..a.f1()", "$[?(@.a.f4() == 1)].a", "$[*].a.g1()", "$[?(@.*.g1() > 0)]"}
	doc := []interface{}{map[string]interface{}{"a": 1.0}, map[string]interface{}{"a": 2.0}, 3.0, map[string]interface{}{"a": 4.0}, 5.0}
	defer func() {
		if r := recover(); r != nil {
			if _, ours := r.(UserPanic); !ours {
				panic(r)
			}
		}
	}()
	_, _ = jsonpath.Retrieve(paths[kind%len(paths)], doc, BuildConfig(rec, true, false))
}

// nestedFirst evaluates path on v with the library itself (config-less Retrieve: the inner call
// takes whatever locks and pooled buffers an outer evaluation is holding) and returns the first
// value, or the inner retrieval's own error value unchanged. pureOut / pureErr are what the
// catalogue semantics say; if the inner retrieval disagrees about success the pure outcome wins
// (the disagreement itself is some other check's business) so that SPEC stays the reference.
func nestedFirst(path string, v interface{}, pureOut interface{}, pureErr error) (interface{}, error) {
	res, err := jsonpath.Retrieve(path, v)
	if err != nil && pureErr != nil {
		return nil, err // the library's own ErrorMemberNotExist / ErrorTypeUnmatched value
	}
	if err == nil && pureErr == nil && len(res) == 1 {
		return res[0], nil
	}
	return pureOut, pureErr
}

// ---------------------------------------------------------------------------------------
// error description

// ErrInfo is a parsed library error.
type ErrInfo struct {
	Type     string // Go type name without package, "" for nil
	Path     string
	Expected string
	Found    string
	Function string
	FuncErr  string
	Text     string
}

// IsRuntime reports whether the error is one of the three documented runtime types.
func (e ErrInfo) IsRuntime() bool {
	return e.Type == "ErrorMemberNotExist" || e.Type == "ErrorTypeUnmatched" || e.Type == "ErrorFunctionFailed"
}

// IsSyntax reports whether the error is one of the four documented syntax-check types.
func (e ErrInfo) IsSyntax() bool {
	switch e.Type {
	case "ErrorInvalidSyntax", "ErrorInvalidArgument", "ErrorFunctionNotFound", "ErrorNotSupported":
		return true
	}
	return false
}

// DescribeErr classifies err by exact dynamic type and parses its message.
func DescribeErr(err error) ErrInfo {
	if err == nil {
		return ErrInfo{}
	}
	info := ErrInfo{Text: err.Error()}
	rt := reflect.TypeOf(err)
	info.Type = rt.String()
	if rt.PkgPath() == "github.com/AsaiYusuke/jsonpath" {
		info.Type = rt.Name()
	}
	txt := info.Text
	switch info.Type {
	case "ErrorMemberNotExist":
		info.Path = strings.TrimSuffix(strings.TrimPrefix(txt, "member did not exist (path="), ")")
	case "ErrorTypeUnmatched":
		body := strings.TrimSuffix(strings.TrimPrefix(txt, "type unmatched (expected="), ")")
		if i := strings.Index(body, ", found="); i >= 0 {
			info.Expected = body[:i]
			body = body[i+len(", found="):]
			if j := strings.Index(body, ", path="); j >= 0 {
				info.Found = body[:j]
				info.Path = body[j+len(", path="):]
			}
		}
	case "ErrorFunctionFailed":
		body := strings.TrimSuffix(strings.TrimPrefix(txt, "function failed (function="), ")")
		if i := strings.Index(body, ", error="); i >= 0 {
			info.Function = body[:i]
			info.FuncErr = body[i+len(", error="):]
		}
	}
	return info
}

// ---------------------------------------------------------------------------------------
// statistics / evidence

// Stats accumulates what one check explored in one shard.
type Stats struct {
	Property     string           `json:"property"`
	Check        string           `json:"check"`
	Shard        int              `json:"shard"`
	Evaluations  int64            `json:"evaluations"`
	Cases        int64            `json:"cases"`
	NonTrivial   int64            `json:"nontrivial_total"`
	Classes      map[string]int64 `json:"classes"`
	Samples      []interface{}    `json:"samples"`
	Rule         string           `json:"rule"`
	Exhaustive   bool             `json:"exhaustive,omitempty"`
	HashesCapped bool             `json:"hashes_capped,omitempty"`
	hashes       map[uint64]struct{}
	mu           sync.Mutex
}

const maxHashes = 1 << 20

// NewStats creates the accumulator; Flush must be deferred.
func NewStats(property, check, rule string) *Stats {
	shard, _ := strconv.Atoi(os.Getenv("VERIF_SHARD"))
	return &Stats{Property: property, Check: check, Shard: shard, Rule: rule,
		Classes: map[string]int64{}, hashes: map[uint64]struct{}{}}
}

// Eval counts library evaluations made under the oracle.
func (s *Stats) Eval(n int) {
	s.mu.Lock()
	s.Evaluations += int64(n)
	s.mu.Unlock()
}

// Case counts one generated case.
func (s *Stats) Case() {
	s.mu.Lock()
	s.Cases++
	s.mu.Unlock()
}

// Class increments a histogram bucket.
func (s *Stats) Class(name string) {
	s.mu.Lock()
	s.Classes[name]++
	s.mu.Unlock()
}

// ClassN adds n to a histogram bucket.
func (s *Stats) ClassN(name string, n int) {
	s.mu.Lock()
	s.Classes[name] += int64(n)
	s.mu.Unlock()
}

// NonTrivialCase records a case that satisfies the property's non-triviality rule; key
// identifies the case (distinctness is measured on its hash). sample is stored for a
// logarithmically thinning subset.
func (s *Stats) NonTrivialCase(key string, sample func() interface{}) {
	h := fnv.New64a()
	h.Write([]byte(key))
	s.mu.Lock()
	defer s.mu.Unlock()
	s.NonTrivial++
	if len(s.hashes) < maxHashes {
		s.hashes[h.Sum64()] = struct{}{}
	} else {
		s.HashesCapped = true
	}
	n := s.NonTrivial
	if sample != nil && len(s.Samples) < 8 && (n <= 2 || n == 10 || n == 100 || n == 1000 || n == 10000 || n == 100000) {
		s.Samples = append(s.Samples, sample())
	}
}

// Flush writes the shard's statistics for the driver.
func (s *Stats) Flush() {
	dir := os.Getenv("VERIF_STATS_DIR")
	if dir == "" {
		return
	}
	s.mu.Lock()
	defer s.mu.Unlock()
	base := filepath.Join(dir, fmt.Sprintf("%s.%d", s.Check, s.Shard))
	b, _ := json.Marshal(s)
	_ = os.WriteFile(base+".stats.json", b, 0o644)
	hs := make([]uint64, 0, len(s.hashes))
	for h := range s.hashes {
		hs = append(hs, h)
	}
	sort.Slice(hs, func(i, j int) bool { return hs[i] < hs[j] })
	buf := make([]byte, 8*len(hs))
	for i, h := range hs {
		for k := 0; k < 8; k++ {
			buf[8*i+k] = byte(h >> (8 * k))
		}
	}
	_ = os.WriteFile(base+".hashes", buf, 0o644)
}

// ---------------------------------------------------------------------------------------
// journal (crash capture, DESIGN §3.5)

var journalFile *os.File
var journalOnce sync.Once

// Journal records the case about to be executed so that a process death can be attributed.
func Journal(check, path, doc string, flags string) {
	journalOnce.Do(func() {
		if p := os.Getenv("VERIF_JOURNAL"); p != "" {
			journalFile, _ = os.OpenFile(p, os.O_CREATE|os.O_WRONLY|os.O_TRUNC, 0o644)
		}
	})
	if journalFile == nil {
		return
	}
	rec := check + "\x00" + flags + "\x00" + path + "\x00" + doc
	hdr := fmt.Sprintf("%010d\n", len(rec))
	_, _ = journalFile.WriteAt([]byte(hdr+rec), 0)
}

// ---------------------------------------------------------------------------------------
// failure reporting and replay

// TB is what both *testing.T and *rapid.T offer.
type TB interface {
	Fatalf(format string, args ...any)
	Logf(format string, args ...any)
}

// Fail saves the failing case (the last one saved by a rapid run is the shrunk one) and
// fails the test.
func Fail(t TB, c *Case, format string, args ...any) {
	c.Note = fmt.Sprintf(format, args...)
	if strings.Contains(c.Note, "harness:") {
		// a defect of the machinery, never a violation of the property: the driver maps it to exit 2
		t.Fatalf("HARNESS-ERROR in %s: %s\n  path: %q", c.Check, c.Note, c.Path)
		return
	}
	if !utf8.ValidString(c.Path) {
		c.PathRaw = []byte(c.Path)
	}
	if p := os.Getenv("VERIF_FAIL_OUT"); p != "" {
		b, _ := json.MarshalIndent(c, "", " ")
		_ = os.WriteFile(p, b, 0o644)
	}
	t.Fatalf("property %s violated (%s): %s\n  path: %q\n  doc: %s", c.Property, c.Check, c.Note, c.Path, c.docPreview())
}

func (c *Case) docPreview() string {
	s := c.DocText
	if c.Doc != nil {
		s = c.Doc.JSON()
	}
	if len(s) > 400 {
		s = s[:400] + "…"
	}
	return s
}

func envTier() string { return os.Getenv("VERIF_TIER") }

// Pending saves the scenario about to be executed, for checks whose failure mode is the death
// of the process (race detector with halt_on_error): the driver turns it into the replay file.
func Pending(c *Case) {
	if p := os.Getenv("VERIF_FAIL_OUT"); p != "" {
		b, _ := json.MarshalIndent(c, "", " ")
		_ = os.WriteFile(p+".pending", b, 0o644)
	}
}

// replayers maps check names to the pure check functions (returns "" when the property holds).
var replayers = map[string]func(c *Case, st *Stats) string{}

// Register makes a check replayable.
func Register(check string, fn func(c *Case, st *Stats) string) {
	replayers[check] = fn
}

// Restore undoes the JSON encoding of fields JSON cannot carry faithfully.
func (c *Case) Restore() {
	if len(c.PathRaw) > 0 {
		c.Path = string(c.PathRaw)
	}
}

// recentCases are the last cases this process ran (whole cases: path, document, mode). A defect
// that leaves state behind in an evaluation (not in Parse) makes a LATER case fail; that case
// alone passes in a fresh process. The first failing case of a process is therefore also saved
// with the cases before it, and the driver falls back to that file when the shrunk case does
// not reproduce on its own.
var recentCases []*Case

const recentCasesMax = 64

var firstFailureSaved bool

func noteCase(c *Case) {
	recentCases = append(recentCases, c)
	if len(recentCases) > recentCasesMax {
		recentCases = append([]*Case(nil), recentCases[len(recentCases)-recentCasesMax:]...)
	}
}

// saveFirstFailure writes the first failing case of the process with its history.
func saveFirstFailure(c *Case, msg string, before []*Case, prefix []PrefixCall) {
	if firstFailureSaved || strings.Contains(msg, "harness:") {
		return
	}
	firstFailureSaved = true
	p := os.Getenv("VERIF_FAIL_OUT")
	if p == "" {
		return
	}
	cc := *c
	cc.Note = msg
	if len(cc.Prefix) == 0 {
		cc.Prefix = prefix
	}
	for _, b := range before {
		bb := *b
		bb.Before, bb.Prefix = nil, nil
		if !utf8.ValidString(bb.Path) {
			bb.PathRaw = []byte(bb.Path)
		}
		cc.Before = append(cc.Before, &bb)
	}
	if !utf8.ValidString(cc.Path) {
		cc.PathRaw = []byte(cc.Path)
	}
	if b, err := json.MarshalIndent(&cc, "", " "); err == nil {
		_ = os.WriteFile(p+".first", b, 0o644)
	}
}

// RunCase runs the registered check of the case.
func RunCase(c *Case, st *Stats) string {
	c.Restore()
	for _, b := range c.Before {
		b.Restore()
		if fn, ok := replayers[b.Check]; ok {
			_ = safeRun(fn, b, NewStats(b.Property, b.Check, ""))
		}
	}
	replayPrefix(c.Prefix)
	fn, ok := replayers[c.Check]
	if !ok {
		return "harness: no replayer for check " + c.Check
	}
	return safeRun(fn, c, st)
}

// ---- hang detection (DESIGN §3.5) ----
// A watchdog goroutine aborts the shard when one case runs longer than hangLimit; it saves the
// case as a pending replay first. Normal cases cost micro- to milliseconds, so the limit is 4-6
// orders of magnitude above them; the driver confirms by replaying the case alone.

var hangLimit = 30 * time.Second
var currentCase atomic.Pointer[Case]
var currentStart atomic.Int64
var currentCPU atomic.Int64 // process CPU time (ns) when the case started

// processCPU is the CPU time this process has consumed so far (user + system).
func processCPU() time.Duration {
	var ru syscall.Rusage
	if syscall.Getrusage(syscall.RUSAGE_SELF, &ru) != nil {
		return 0
	}
	return time.Duration(ru.Utime.Nano() + ru.Stime.Nano())
}

var watchdogOnce sync.Once

func startWatchdog() {
	watchdogOnce.Do(func() {
		go func() {
			var lag time.Duration // how much longer than asked this goroutine slept while the current case ran
			var lagFor int64
			for {
				t0 := time.Now()
				time.Sleep(time.Second)
				over := time.Since(t0) - time.Second
				c := currentCase.Load()
				st := currentStart.Load()
				if c == nil || st == 0 {
					continue
				}
				if st != lagFor {
					lag, lagFor = 0, st
				}
				if over > 0 {
					lag += over
				}
				if d := time.Since(time.Unix(0, st)); d > hangLimit {
					// Wall-clock time alone would blame the library for a starved machine. A case counts as
					// hanging when it has also burnt most of the limit in CPU time (a loop), or next to none
					// (blocked on a lock), or when nine times the limit has passed whatever the machine did.
					cpu := processCPU() - time.Duration(currentCPU.Load())
					if cpu < hangLimit*3/4 && cpu > hangLimit/10 && d < 9*hangLimit {
						continue
					}
					// "next to no CPU time" also describes a process that was runnable all along and not
					// given a CPU: time spent waiting in the run queue is the machine's, not the library's
					// (this watchdog oversleeping is the sign: a timer that fires late means the process was not scheduled)
					if cpu <= hangLimit/10 && lag > d/5 && d < 9*hangLimit {
						continue
					}
					cc := *c
					cc.Note = fmt.Sprintf("the case did not finish within %s (hang detector)", hangLimit)
					if !utf8.ValidString(cc.Path) {
						cc.PathRaw = []byte(cc.Path)
					}
					if p := os.Getenv("VERIF_FAIL_OUT"); p != "" {
						b, _ := json.MarshalIndent(&cc, "", " ")
						_ = os.WriteFile(p+".pending", b, 0o644)
					}
					fmt.Fprintf(os.Stderr, "\nHANG-DETECTED check=%s after %.0fs path=%q\n", cc.Check, d.Seconds(), cc.Path)
					os.Exit(3)
				}
			}
		}()
	})
}

func enterCase(c *Case) {
	currentCase.Store(c)
	currentCPU.Store(int64(processCPU()))
	currentStart.Store(time.Now().UnixNano())
}

func leaveCase() {
	currentStart.Store(0)
}

// checkRapid is the common driver of a rapid-based check.
func checkRapid(t *testing.T, property, check, rule string, draw func(rt *rapid.T) *Case) {
	st := NewStats(property, check, rule)
	defer st.Flush()
	startWatchdog()
	runSeeds(t, property, check, st)
	fn := replayers[check]
	rapid.Check(t, func(rt *rapid.T) {
		c := draw(rt)
		c.Property, c.Check = property, check
		st.Case()
		begin := time.Now()
		before := append([]PrefixCall(nil), recentCalls...)
		casesBefore := append([]*Case(nil), recentCases...)
		enterCase(c)
		msg := safeRun(fn, c, st)
		leaveCase()
		if marker := os.Getenv("VERIF_DEV_FAKE_HANG"); marker != "" && st.Shard == 0 && st.Cases == 50 {
			// development aid: pretend the hang detector fired once (exercises the driver's second attempt)
			if _, err := os.Stat(marker); err != nil {
				_ = os.WriteFile(marker, []byte("x"), 0o644)
				Pending(c)
				fmt.Fprintf(os.Stderr, "\nHANG-DETECTED check=%s (faked)\n", c.Check)
				os.Exit(3)
			}
		}
		if msg != "" && len(c.Prefix) == 0 {
			c.Prefix = before
		}
		if msg != "" {
			saveFirstFailure(c, msg, casesBefore, before)
		}
		noteCase(c)
		if d := time.Since(begin); d > 2*time.Second {
			st.Class("slow-case(>2s)")
			fmt.Fprintf(os.Stderr, "SLOW-CASE %s %.1fs path=%q doc=%s\n", check, d.Seconds(), c.Path, c.docPreview())
		}
		if msg != "" {
			Fail(rt, c, "%s", msg)
		}
	})
}

// safeRun runs a check and turns a panic escaping from the library into a violation message
// (no listed property allows a panic).
func safeRun(fn func(c *Case, st *Stats) string, c *Case, st *Stats) (msg string) {
	defer func() {
		if r := recover(); r != nil {
			stack := string(debug.Stack())
			if panicInLibrary(stack) {
				msg = fmt.Sprintf("panic: %v\n%s", r, trimStack([]byte(stack)))
			} else {
				msg = fmt.Sprintf("harness: the check itself panicked: %v\n%s", r, trimStack([]byte(stack)))
			}
		}
	}()
	return fn(c, st)
}

// panicInLibrary reports whether the frame that panicked (the first non-runtime frame below
// the panic call) belongs to the library under test.
func panicInLibrary(stack string) bool {
	lines := strings.Split(stack, "\n")
	seenPanic := false
	for _, l := range lines {
		if !seenPanic {
			if strings.HasPrefix(l, "panic(") {
				seenPanic = true
			}
			continue
		}
		if strings.HasPrefix(l, "github.com/AsaiYusuke/jsonpath.") {
			return true
		}
		if strings.HasPrefix(l, "verif/harness/") {
			return false
		}
	}
	return true
}

func trimStack(b []byte) string {
	s := string(b)
	if len(s) > 1500 {
		s = s[:1500] + "…"
	}
	return s
}

// JSONString renders v for messages and samples (opaque values by type).
func JSONString(v interface{}) string {
	b, err := json.Marshal(sanitize(v))
	if err != nil {
		return fmt.Sprintf("%#v", v)
	}
	return string(b)
}

func sanitize(v interface{}) interface{} {
	switch t := v.(type) {
	case nil, bool, float64, json.Number, string:
		return v
	case map[string]interface{}:
		m := make(map[string]interface{}, len(t))
		for k, c := range t {
			m[k] = sanitize(c)
		}
		return m
	case []interface{}:
		a := make([]interface{}, len(t))
		for i, c := range t {
			a[i] = sanitize(c)
		}
		return a
	case jsonpath.Accessor:
		if t.Get == nil {
			return map[string]interface{}{"$go": "jsonpath.Accessor{}"}
		}
		return map[string]interface{}{"$accessor": sanitize(t.Get()), "settable": t.Set != nil}
	case json.RawMessage:
		return map[string]interface{}{"$go": "json.RawMessage", "text": string(t)}
	case *interface{}:
		if t != nil {
			return map[string]interface{}{"$go": "*interface {}", "to": sanitize(*t)}
		}
	case *map[string]interface{}:
		if t != nil {
			return map[string]interface{}{"$go": "*map[string]interface {}", "to": sanitize(*t)}
		}
	case *[]interface{}:
		if t != nil {
			return map[string]interface{}{"$go": "*[]interface {}", "to": sanitize(*t)}
		}
	}
	return map[string]interface{}{"$go": reflect.TypeOf(v).String()}
}
