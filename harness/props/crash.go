package props

import (
	"github.com/AsaiYusuke/jsonpath"
)

// checkCrash replays a journalled case whose shard process died: parse the path under the
// journalled config and evaluate it on the journalled document. Surviving is passing.
func checkCrash(c *Case, st *Stats) string {
	rec := &Recorder{}
	cfg := BuildConfig(rec, c.Funcs, c.Accessor)
	f, err := jsonpath.Parse(c.Path, cfg)
	if err != nil || f == nil {
		return ""
	}
	if c.DocText == "" && c.Doc == nil {
		_, _ = f(nil)
		return ""
	}
	var doc interface{}
	func() {
		defer func() { _ = recover() }()
		doc = c.Document()
	}()
	_, _ = f(doc)
	return ""
}

func init() { Register("Crash", checkCrash) }
