package props

import (
	"fmt"

	"verif/harness/gen"
	"verif/harness/spec"
)

// candidateSet implements DESIGN §3.3 "failure candidates": failures at maximal depth; if any
// of them is not a type failure, only those.
func candidateSet(fails []spec.Failure, withOptional bool) []spec.Failure {
	maxDepth := -1
	for _, f := range fails {
		if f.Optional && !withOptional {
			continue
		}
		if f.Depth > maxDepth {
			maxDepth = f.Depth
		}
	}
	var at []spec.Failure
	nonType := false
	for _, f := range fails {
		if f.Optional && !withOptional {
			continue
		}
		if f.Depth == maxDepth {
			at = append(at, f)
			if f.Kind != spec.FailType {
				nonType = true
			}
		}
	}
	if !nonType {
		return at
	}
	var out []spec.Failure
	for _, f := range at {
		if f.Kind != spec.FailType {
			out = append(out, f)
		}
	}
	return out
}

// failureMatches reports whether the library's error describes the SPEC failure f.
func failureMatches(f spec.Failure, e ErrInfo, texts []gen.StepText) bool {
	if f.Step >= len(texts) {
		return false
	}
	st := texts[f.Step]
	names := st.Names
	if len(names) > 1 && names[0] == ".." && len(st.Written) >= 2 && st.Written[:2] == ".." {
		// a recursive step: Names[0] names the ".." node, the rest name its selector
		if f.RecNode {
			names = names[:1]
		} else {
			names = names[1:]
		}
	}
	nameOK := func(name string) bool {
		for _, n := range names {
			if n == name {
				return true
			}
		}
		return false
	}
	switch f.Kind {
	case spec.FailMember:
		return e.Type == "ErrorMemberNotExist" && nameOK(e.Path)
	case spec.FailType:
		return e.Type == "ErrorTypeUnmatched" && nameOK(e.Path) && e.Expected == f.Expected && e.Found == f.Found
	case spec.FailFunc:
		return e.Type == "ErrorFunctionFailed" && nameOK(e.Function) && e.FuncErr == f.FuncErr
	}
	return false
}

// matchRuntimeError checks the library error against SPEC's candidate sets; returns "" when it
// matches a candidate (with or without the optional ones).
func matchRuntimeError(res *spec.Result, e ErrInfo, texts []gen.StepText) string {
	for _, withOpt := range []bool{false, true} {
		for _, f := range candidateSet(res.Fails, withOpt) {
			if failureMatches(f, e, texts) {
				return ""
			}
		}
	}
	return fmt.Sprintf("error %q matches no SPEC candidate %s", e.Text, describeCandidates(res, texts))
}

func describeCandidates(res *spec.Result, texts []gen.StepText) string {
	out := "["
	for i, f := range candidateSet(res.Fails, true) {
		if i > 0 {
			out += "; "
		}
		name := "?"
		if f.Step < len(texts) {
			name = texts[f.Step].Written
		}
		if f.RecNode {
			name = ".. of " + name
		}
		switch f.Kind {
		case spec.FailType:
			out += fmt.Sprintf("type(expected=%s found=%s) at step %d %s", f.Expected, f.Found, f.Step, name)
		case spec.FailFunc:
			out += fmt.Sprintf("function(%s) at step %d %s", f.FuncErr, f.Step, name)
		default:
			out += fmt.Sprintf("member at step %d %s", f.Step, name)
		}
		if f.Optional {
			out += " (optional)"
		}
	}
	return out + "]"
}
