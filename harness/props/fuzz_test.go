package props

import (
	"testing"

	"pgregory.net/rapid"

	"verif/harness/gen"
)

// Native coverage-guided fuzz targets (thorough tier only; Go's fuzzer cannot be pinned to a
// seed, the saved crasher is the reproducible unit). The semantic oracles are inside the
// targets: the same pure check functions the rapid-driven checks use.

func fuzzFail(t *testing.T, c *Case, check string, msg string) {
	c.Check = check
	Fail(t, c, "%s", msg)
}

// FuzzParse: C02 (totality of Parse) and C17 (agreement with PEGI) on arbitrary bytes.
func FuzzParse(f *testing.F) {
	paths, _ := suiteCorpus()
	for i, p := range paths {
		if i%3 == 0 {
			f.Add([]byte(p), byte(i))
		}
	}
	for _, s := range gen.Vocabulary {
		f.Add([]byte("$"+s), byte(1))
	}
	for _, s := range []string{"$[?(1 < 2)]", "$[?($.a > 1)]", "[?(0<=1)]", "$[?(@.g1().g2() == 1)]", "$.é.a b", "$[1::9223372036854775807]", "$..['a','b'].c", "$[?(@.a =~ /[/)]", "$['\\ud800']", "$[(1)]"} {
		f.Add([]byte(s), byte(3))
	}
	st := NewStats("C02", "FuzzParse", "native fuzzing")
	f.Fuzz(func(t *testing.T, data []byte, flags byte) {
		if len(data) > 1024 {
			return
		}
		c := &Case{Property: "C02", Path: string(data), Funcs: flags&1 == 1, Accessor: flags&2 == 2, Strs: []string{"native-fuzz"}}
		if msg := safeRun(checkC02, c, st); msg != "" {
			fuzzFail(t, c, "TestC02_Total", msg)
		}
		c17 := &Case{Property: "C17", Path: string(data), Funcs: flags&1 == 1, Strs: []string{"native-fuzz"}}
		if msg := safeRun(checkC17, c17, st); msg != "" {
			fuzzFail(t, c17, "TestC17_Grammar", msg)
		}
	})
}

// FuzzRetrieve: C03 (totality of evaluation, with the SPEC cross-check) on arbitrary
// (path, document) pairs.
func FuzzRetrieve(f *testing.F) {
	paths, docs := suiteCorpus()
	for i, p := range paths {
		if i%4 == 0 && len(docs) > 0 {
			f.Add(p, []byte(docs[i%len(docs)]), byte(i))
		}
	}
	f.Add("$[1::9223372036854775807]", []byte(`[1,2,3]`), byte(0))
	f.Add("$[?(@.b != $.b)]", []byte(`[{"a":0},{"a":1}]`), byte(1))
	f.Add("$.a.*.g1()", []byte(`{"a":[[1,2],[3]]}`), byte(0))
	st := NewStats("C03", "FuzzRetrieve", "native fuzzing")
	f.Fuzz(func(t *testing.T, path string, doc []byte, flags byte) {
		if len(path) > 512 || len(doc) > 4096 {
			return
		}
		v, err := gen.Decode(string(doc), flags&1 == 1)
		if err != nil {
			return
		}
		_ = v
		c := &Case{Property: "C03", Path: path, DocText: string(doc), UseNumber: flags&1 == 1, Funcs: true, Strs: []string{"native-fuzz"}}
		if msg := safeRun(checkC03Text, c, st); msg != "" {
			fuzzFail(t, c, "TestC03_Text", msg)
		}
	})
}

// FuzzSpec: the C01 property driven by the fuzzer's bytes through rapid.MakeFuzz.
func FuzzSpec(f *testing.F) {
	st := NewStats("C01", "FuzzSpec", "native fuzzing through rapid.MakeFuzz")
	f.Fuzz(rapid.MakeFuzz(func(rt *rapid.T) {
		c := drawC01(rt)
		c.Property, c.Check = "C01", "TestC01_Spec"
		if msg := safeRun(checkC01, c, st); msg != "" {
			Fail(rt, c, "%s", msg)
		}
	}))
}
