package props

import (
	"encoding/json"
	"os"
	"testing"
)

// TestReplay re-executes one saved case through the plain (rapid-free) path.
func TestReplay(t *testing.T) {
	file := os.Getenv("VERIF_REPLAY_FILE")
	if file == "" {
		t.Skip("VERIF_REPLAY_FILE not set")
	}
	b, err := os.ReadFile(file)
	if err != nil {
		t.Fatalf("harness: %v", err)
	}
	var c Case
	if err := json.Unmarshal(b, &c); err != nil {
		t.Fatalf("harness: bad replay file: %v", err)
	}
	st := NewStats(c.Property, c.Check, "replay")
	if msg := RunCase(&c, st); msg != "" {
		t.Fatalf("REPLAY-VIOLATION property=%s check=%s: %s", c.Property, c.Check, msg)
	}
	t.Logf("REPLAY-OK property=%s check=%s", c.Property, c.Check)
}
