package props

import (
	"encoding/json"
	"os"
	"path/filepath"
	"sort"
	"testing"
)

// seeds are hand-written regression cases per check (defect inputs of DESIGN §3.8 etc.).
var seeds = map[string][]*Case{}

// AddSeed registers a regression case for a check.
func AddSeed(check string, c *Case) {
	c.Check = check
	seeds[check] = append(seeds[check], c)
}

// runSeeds is the seconds-long regression tier: hand-written seeds and every replay file
// under $VERIF_REPLAY_DIR that belongs to the check. Only shard 0 runs it.
func runSeeds(t *testing.T, property, check string, st *Stats) {
	if s := os.Getenv("VERIF_SHARD"); s != "" && s != "0" {
		return
	}
	fn := replayers[check]
	if fn == nil {
		t.Fatalf("harness: check %s has no registered function", check)
	}
	var cases []*Case
	cases = append(cases, seeds[check]...)
	if dir := os.Getenv("VERIF_REPLAY_DIR"); dir != "" {
		files, _ := filepath.Glob(filepath.Join(dir, "*.json"))
		sort.Strings(files)
		for _, f := range files {
			b, err := os.ReadFile(f)
			if err != nil {
				continue
			}
			var c Case
			if json.Unmarshal(b, &c) != nil || c.Check != check {
				continue
			}
			c.Note = ""
			c.Restore()
			cases = append(cases, &c)
		}
	}
	for _, c := range cases {
		c.Property = property
		replayPrefix(c.Prefix)
		st.Class("regression_cases")
		c.Check = check
		enterCase(c) // the hang detector watches the regression cases as well
		msg := safeRun(fn, c, st)
		leaveCase()
		if msg != "" {
			Fail(t, c, "regression case: %s", msg)
		}
	}
}
