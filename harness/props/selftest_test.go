package props

import (
	"encoding/json"
	"os"
	"path/filepath"
	"testing"

	"verif/harness/gen"
	"verif/harness/pegi"
	"verif/harness/spec"
	"verif/harness/suite"
)

func repoDir() string {
	if d := os.Getenv("VERIF_REPO"); d != "" {
		return d
	}
	return "/repo"
}

var cachedGrammar *pegi.Grammar

func loadGrammar(t testing.TB) *pegi.Grammar {
	if cachedGrammar != nil {
		return cachedGrammar
	}
	g, err := pegi.LoadGrammar(filepath.Join(repoDir(), "jsonpath.peg"))
	if err != nil {
		t.Fatalf("harness: cannot read the published grammar: %v", err)
	}
	cachedGrammar = g
	return g
}

func inList(l []string) func(string) bool {
	return func(n string) bool {
		for _, x := range l {
			if x == n {
				return true
			}
		}
		return false
	}
}

// TestSelf_SuiteAgreement validates the oracles (PEGI + restrictions, tree2ast, SPEC and the
// error-candidate matcher) against every table case the repository pins (DESIGN §3.9).
func TestSelf_SuiteAgreement(t *testing.T) {
	cases, skipped, err := suite.Extract(filepath.Join(repoDir(), "test_jsonpath_test.go"))
	if err != nil {
		t.Fatalf("harness: %v", err)
	}
	g := loadGrammar(t)
	var nSyntax, nAccept, nValues, nErrors, nFuncSkipped, nOther int
	for _, c := range cases {
		funcs := pegi.Funcs{Filter: inList(c.Filters), Aggregate: inList(c.Aggregates)}
		v := g.Parse(c.Path)
		rs := pegi.Restrictions(v.Tree, v.Runes, funcs)
		isSyntaxErr := c.Err != nil && (c.Err.Type == "ErrorInvalidSyntax" || c.Err.Type == "ErrorInvalidArgument" ||
			c.Err.Type == "ErrorFunctionNotFound" || c.Err.Type == "ErrorNotSupported")
		if isSyntaxErr {
			nSyntax++
			if v.Accepted && len(rs) == 0 {
				t.Errorf("PEGI accepts %s but the suite pins %s", c, c.Err.Type)
				continue
			}
			if len(rs) > 0 {
				if rs[0].Type != c.Err.Type {
					t.Errorf("PEGI restriction %s != pinned %s for %s", rs[0].Type, c.Err.Type, c)
				}
				if c.Err.Type == "ErrorInvalidSyntax" && !c.Err.Partial {
					if rs[0].Position != c.Err.Position || string(v.Runes[rs[0].Position:]) != c.Err.Near {
						t.Errorf("PEGI restriction position %d near %q != pinned %d %q for %s", rs[0].Position, string(v.Runes[rs[0].Position:]), c.Err.Position, c.Err.Near, c)
					}
				}
				continue
			}
			if c.Err.Type != "ErrorInvalidSyntax" {
				t.Errorf("PEGI rejects %s as unrecognized input but the suite pins %s", c, c.Err.Type)
				continue
			}
			if !c.Err.Partial && (v.PrefixEnd != c.Err.Position || string(v.Runes[v.PrefixEnd:]) != c.Err.Near) {
				t.Errorf("PEGI position %d near %q != pinned position %d near %q for %s", v.PrefixEnd, string(v.Runes[v.PrefixEnd:]), c.Err.Position, c.Err.Near, c)
			}
			continue
		}
		if !v.Accepted || len(rs) > 0 {
			t.Errorf("PEGI rejects %s (accepted=%v restrictions=%v) but the suite expects it to parse", c, v.Accepted, rs)
			continue
		}
		nAccept++
		ast, texts, err := pegi.ToASTWithTexts(v.Tree, v.Runes, funcs)
		if err != nil {
			t.Errorf("tree2ast failed for %s: %v", c, err)
			continue
		}
		// renderer round trip: canonical rendering must parse back to the same AST
		r := gen.Render(ast, gen.Canon)
		v2 := g.Parse(r.Text)
		if !v2.Accepted {
			t.Errorf("canonical rendering %q of %s is not derivable", r.Text, c)
			continue
		}
		ast2, _ := pegi.ToAST(v2.Tree, v2.Runes, funcs)
		b1, _ := json.Marshal(ast)
		b2, _ := json.Marshal(ast2)
		if string(b1) != string(b2) {
			t.Errorf("renderer round trip changed the AST of %s:\n  %s\n  %s (rendered %q)", c, b1, b2, r.Text)
			continue
		}
		if ast.HasFunc() {
			nFuncSkipped++
			continue // the suite's functions are Go code; SPEC cannot run them
		}
		if c.CustomDecode || c.Validator || c.Accessor {
			nOther++
			continue
		}
		doc, derr := gen.Decode(c.Input, c.UseNumber)
		if derr != nil {
			nOther++
			continue
		}
		res := spec.Eval(ast, doc, gen.PureFuncs{})
		if c.Err != nil {
			nErrors++
			if len(res.Nodes) != 0 {
				t.Errorf("SPEC selects %s but the suite pins error %s for %s", JSONString(res.Values()), c.Err.Type, c)
				continue
			}
			info := ErrInfo{Type: c.Err.Type, Path: c.Err.Path, Expected: c.Err.Expected, Found: c.Err.Found, Function: c.Err.Path, FuncErr: c.Err.FuncErr, Text: "pinned"}
			if msg := matchRuntimeError(res, info, texts); msg != "" {
				t.Errorf("pinned error %+v of %s: %s", *c.Err, c, msg)
			}
			continue
		}
		nValues++
		if res.Unspecified {
			continue
		}
		got, _ := json.Marshal(res.Values())
		if len(res.Nodes) == 0 {
			t.Errorf("SPEC selects nothing but the suite pins %s for %s (fails %+v)", c.Expected, c, res.Fails)
			continue
		}
		if string(got) != c.Expected {
			t.Errorf("SPEC result %s != pinned %s for %s", got, c.Expected, c)
		}
	}
	t.Logf("suite cases=%d (uninterpretable=%d): syntax-error cases=%d, accepted=%d, value cases=%d, runtime-error cases=%d, function cases skipped for SPEC=%d, other skipped=%d",
		len(cases), skipped, nSyntax, nAccept, nValues, nErrors, nFuncSkipped, nOther)
	if len(cases) < 1000 {
		t.Errorf("harness: only %d suite cases extracted", len(cases))
	}
}
