// Package spec is the independent executable specification (DESIGN.md §3.3): a list-monad
// interpreter of a path AST over decoded JSON. It shares no code with the library.
package spec

import (
	"encoding/json"
	"reflect"
	"regexp"
	"sort"
	"strconv"

	"verif/harness/gen"
)

// Node is a selected value with its location in the document (if it is one).
type Node struct {
	V      interface{}
	Loc    []interface{} // string keys / int indexes from the root
	HasLoc bool          // false for the root itself and for function outputs
}

// FailKind classifies a branch failure.
type FailKind int

const (
	FailMember FailKind = iota
	FailType
	FailFunc
)

func (k FailKind) String() string { return [...]string{"member", "type", "function"}[k] }

// Failure is one branch failure of the top-level path.
type Failure struct {
	Depth    int // 2*stepIndex for the ".." node of a recursive step, 2*stepIndex+1 for the selector
	Step     int
	RecNode  bool // the failure belongs to the ".." node itself
	Kind     FailKind
	Expected string // FailType: object | array | object/array
	Found    string // FailType: Go type of the value found ("null" for nil)
	FuncErr  string // FailFunc: error text of the user function
	Optional bool   // the library may or may not report it (multi-name on an array under "..")
}

// Funcs gives SPEC the user functions of the case (pure; no recording).
type Funcs interface {
	Filter(name string, v interface{}) (interface{}, error)
	Aggregate(name string, vs []interface{}) (interface{}, error)
}

// Call is one expected call of a user function.
type Call struct {
	Fn   string
	Arg  interface{} // for aggregates: []interface{}
	Ctx  string      // "main", "@", "$"
	Pure bool        // operand call inside a filter that consists of a single comparison / existence test
}

// Result of evaluating a top-level path.
type Result struct {
	Nodes       []Node
	Fails       []Failure
	Unspecified bool   // a declared-unspecified cell was consulted (DESIGN §3.3)
	Calls       []Call // in SPEC evaluation order
	Touched     int    // opaque (non-JSON) values examined by a step, operand or function
	TouchedT    map[string]int
}

// Values returns the plain values of the result.
func (r *Result) Values() []interface{} {
	out := make([]interface{}, len(r.Nodes))
	for i := range r.Nodes {
		out[i] = r.Nodes[i].V
	}
	return out
}

type evaluator struct {
	root   interface{}
	funcs  Funcs
	res    *Result
	record bool // record failures (top-level path only)
	ctx    string
	pure   bool
}

// Eval evaluates p on the document root.
func Eval(p *gen.Path, root interface{}, funcs Funcs) *Result {
	e := &evaluator{root: root, funcs: funcs, res: &Result{TouchedT: map[string]int{}}, record: true, ctx: "main", pure: true}
	e.res.Nodes = e.evalPath(p, Node{V: root})
	return e.res
}

// IsJSONContainer etc.
func isObj(v interface{}) (map[string]interface{}, bool) {
	m, ok := v.(map[string]interface{})
	return m, ok
}
func isArr(v interface{}) ([]interface{}, bool) {
	a, ok := v.([]interface{})
	return a, ok
}

// IsOpaque reports whether v is not something encoding/json produces for interface{}.
func IsOpaque(v interface{}) bool {
	switch v.(type) {
	case nil, bool, float64, json.Number, string, map[string]interface{}, []interface{}:
		return false
	}
	return true
}

func (e *evaluator) touch(v interface{}) {
	if IsOpaque(v) {
		e.res.Touched++
		e.res.TouchedT[reflect.TypeOf(v).String()]++
	}
}

// TypeName is the name the library is documented to report as found=.
func TypeName(v interface{}) string {
	if v == nil {
		return "null"
	}
	return reflect.TypeOf(v).String()
}

// SortedKeys returns the keys of m in ascending byte-wise order.
func SortedKeys(m map[string]interface{}) []string {
	keys := make([]string, 0, len(m))
	for k := range m {
		keys = append(keys, k)
	}
	sort.Slice(keys, func(i, j int) bool { return keys[i] < keys[j] }) // Go string < is byte-wise
	return keys
}

func child(n Node, key interface{}, v interface{}) Node {
	loc := make([]interface{}, len(n.Loc)+1)
	copy(loc, n.Loc)
	loc[len(n.Loc)] = key
	return Node{V: v, Loc: loc, HasLoc: true}
}

func (e *evaluator) fail(f Failure) {
	if e.record {
		e.res.Fails = append(e.res.Fails, f)
	}
}

func (e *evaluator) evalPath(p *gen.Path, start Node) []Node {
	nodes := []Node{start}
	group := false
	for i := range p.Steps {
		s := &p.Steps[i]
		if s.Kind == gen.KFunc {
			nodes = e.applyFunc(s, i, nodes, group)
			if s.Agg {
				group = false
			}
			continue
		}
		if s.IsGroupStep() {
			group = true
		}
		var next []Node
		for _, n := range nodes {
			next = append(next, e.applyStep(s, i, n)...)
		}
		nodes = next
		if len(nodes) == 0 {
			return nil
		}
	}
	return nodes
}

func (e *evaluator) applyFunc(s *gen.Step, idx int, nodes []Node, group bool) []Node {
	if len(nodes) == 0 {
		return nil
	}
	if s.Agg {
		args := make([]interface{}, len(nodes))
		for i := range nodes {
			args[i] = nodes[i].V
		}
		if !group && len(nodes) == 1 {
			if arr, ok := isArr(nodes[0].V); ok {
				args = append([]interface{}{}, arr...)
			}
		}
		for _, a := range args {
			e.touch(a)
		}
		e.res.Calls = append(e.res.Calls, Call{Fn: s.Fn, Arg: args, Ctx: e.ctx, Pure: e.pure})
		out, err := e.funcs.Aggregate(s.Fn, args)
		if err != nil {
			e.fail(Failure{Depth: 2*idx + 1, Step: idx, Kind: FailFunc, FuncErr: err.Error()})
			return nil
		}
		return []Node{{V: out}}
	}
	var next []Node
	for _, n := range nodes {
		e.touch(n.V)
		e.res.Calls = append(e.res.Calls, Call{Fn: s.Fn, Arg: n.V, Ctx: e.ctx, Pure: e.pure})
		out, err := e.funcs.Filter(s.Fn, n.V)
		if err != nil {
			e.fail(Failure{Depth: 2*idx + 1, Step: idx, Kind: FailFunc, FuncErr: err.Error()})
			continue
		}
		next = append(next, Node{V: out})
	}
	return next
}

// applyStep applies one non-function step to one node.
func (e *evaluator) applyStep(s *gen.Step, idx int, n Node) []Node {
	if !s.Rec {
		return e.applySelector(s, idx, n, false)
	}
	e.touch(n.V)
	_, okO := isObj(n.V)
	_, okA := isArr(n.V)
	if !okO && !okA {
		e.fail(Failure{Depth: 2 * idx, Step: idx, RecNode: true, Kind: FailType, Expected: "object/array", Found: TypeName(n.V)})
		return nil
	}
	var out []Node
	var walk func(c Node)
	walk = func(c Node) {
		if m, ok := isObj(c.V); ok {
			if selectorAppliesToObject(s) {
				out = append(out, e.applySelector(s, idx, c, true)...)
			}
			for _, k := range SortedKeys(m) {
				v := m[k]
				if _, ok := isObj(v); ok {
					walk(child(c, k, v))
				} else if _, ok := isArr(v); ok {
					walk(child(c, k, v))
				}
			}
			return
		}
		a, _ := isArr(c.V)
		if selectorAppliesToArray(s) {
			out = append(out, e.applySelector(s, idx, c, true)...)
		}
		for i, v := range a {
			if _, ok := isObj(v); ok {
				walk(child(c, i, v))
			} else if _, ok := isArr(v); ok {
				walk(child(c, i, v))
			}
		}
	}
	walk(n)
	if len(out) == 0 {
		e.fail(Failure{Depth: 2 * idx, Step: idx, RecNode: true, Kind: FailMember})
	}
	return out
}

func selectorAppliesToObject(s *gen.Step) bool {
	switch s.Kind {
	case gen.KName, gen.KWild, gen.KMulti, gen.KFilter:
		return true
	}
	return false
}

func selectorAppliesToArray(s *gen.Step) bool {
	switch s.Kind {
	case gen.KIndex, gen.KSlice, gen.KUnion, gen.KWild, gen.KMulti, gen.KFilter:
		return true
	}
	return false
}

func allWild(s *gen.Step) bool {
	for i := range s.Ent {
		if !s.Ent[i].Wild {
			return false
		}
	}
	return true
}

// applySelector applies the selector part of a step to one node. underRec marks an
// application made by recursive descent (type mismatches are optional candidates then).
func (e *evaluator) applySelector(s *gen.Step, idx int, n Node, underRec bool) []Node {
	depth := 2*idx + 1
	e.touch(n.V)
	typeFail := func(expected string) []Node {
		e.fail(Failure{Depth: depth, Step: idx, Kind: FailType, Expected: expected, Found: TypeName(n.V), Optional: underRec})
		return nil
	}
	memberFail := func() []Node {
		e.fail(Failure{Depth: depth, Step: idx, Kind: FailMember})
		return nil
	}
	var out []Node
	switch s.Kind {
	case gen.KName:
		m, ok := isObj(n.V)
		if !ok {
			return typeFail("object")
		}
		v, ok := m[s.Key]
		if !ok {
			return memberFail()
		}
		return []Node{child(n, s.Key, v)}

	case gen.KMulti:
		if a, ok := isArr(n.V); ok && allWild(s) {
			for range s.Ent {
				for i, v := range a {
					out = append(out, child(n, i, v))
				}
			}
			if len(out) == 0 {
				return memberFail()
			}
			return out
		}
		m, ok := isObj(n.V)
		if !ok {
			return typeFail("object")
		}
		for i := range s.Ent {
			if s.Ent[i].Wild {
				for _, k := range SortedKeys(m) {
					out = append(out, child(n, k, m[k]))
				}
			} else if v, ok := m[s.Ent[i].Key]; ok {
				out = append(out, child(n, s.Ent[i].Key, v))
			}
		}
		if len(out) == 0 {
			return memberFail()
		}
		return out

	case gen.KWild:
		if m, ok := isObj(n.V); ok {
			for _, k := range SortedKeys(m) {
				out = append(out, child(n, k, m[k]))
			}
		} else if a, ok := isArr(n.V); ok {
			for i, v := range a {
				out = append(out, child(n, i, v))
			}
		} else {
			return typeFail("object/array")
		}
		if len(out) == 0 {
			return memberFail()
		}
		return out

	case gen.KIndex, gen.KSlice, gen.KUnion:
		a, ok := isArr(n.V)
		if !ok {
			return typeFail("array")
		}
		for i := range s.Sub {
			for _, ix := range SubIndexes(&s.Sub[i], len(a)) {
				out = append(out, child(n, ix, a[ix]))
			}
		}
		if len(out) == 0 {
			return memberFail()
		}
		return out

	case gen.KFilter:
		if m, ok := isObj(n.V); ok {
			keys := SortedKeys(m)
			members := make([]interface{}, len(keys))
			for i, k := range keys {
				members[i] = m[k]
			}
			verdicts := e.filterVerdicts(s.Q, members)
			for i, k := range keys {
				if verdicts[i] {
					out = append(out, child(n, k, m[k]))
				}
			}
		} else if a, ok := isArr(n.V); ok {
			verdicts := e.filterVerdicts(s.Q, a)
			for i, v := range a {
				if verdicts[i] {
					out = append(out, child(n, i, v))
				}
			}
		} else {
			return typeFail("object/array")
		}
		if len(out) == 0 {
			return memberFail()
		}
		return out
	}
	return nil
}

// SubIndexes returns the indexes one subscript selects from an array of length n.
func SubIndexes(s *gen.Sub, n int) []int {
	switch s.Kind {
	case gen.KWild:
		out := make([]int, n)
		for i := range out {
			out[i] = i
		}
		return out
	case gen.KIndex:
		ix := s.N
		if ix < 0 {
			ix += n // cannot overflow: ix < 0 <= n
		}
		if ix < 0 || ix >= n {
			return nil
		}
		return []int{ix}
	case gen.KSlice:
		return SliceIndices(s.Start, s.End, s.Step, n)
	}
	return nil
}

// ---- filters ----

// filterVerdicts evaluates q for every member of one container.
func (e *evaluator) filterVerdicts(q *gen.Query, members []interface{}) []bool {
	saveRecord, saveCtx, savePure := e.record, e.ctx, e.pure
	e.record = false
	e.pure = savePure && (q.Kind == gen.QExists || q.Kind == gen.QCmp || q.Kind == gen.QRegex)
	out := make([]bool, len(members))
	for i := range members {
		out[i] = e.holds(q, members[i])
	}
	e.record, e.ctx, e.pure = saveRecord, saveCtx, savePure
	return out
}

func (e *evaluator) operandNodes(p *gen.Path, member interface{}) []Node {
	save := e.ctx
	defer func() { e.ctx = save }()
	if p.Root == gen.RootAt {
		e.ctx = "@"
		return e.evalPath(p, Node{V: member})
	}
	e.ctx = "$"
	return e.evalPath(p, Node{V: e.root})
}

type opval struct {
	present bool
	lit     bool
	v       interface{}
}

func (e *evaluator) operandValue(o *gen.Operand, member interface{}) opval {
	if o.IsLit {
		switch o.LK {
		case gen.LNum:
			f, _ := strconv.ParseFloat(o.Num, 64)
			return opval{true, true, f}
		case gen.LStr:
			return opval{true, true, o.Str}
		case gen.LBool:
			return opval{true, true, o.Bool}
		default:
			return opval{true, true, nil}
		}
	}
	nodes := e.operandNodes(o.P, member)
	if len(nodes) == 0 {
		return opval{}
	}
	e.touch(nodes[0].V)
	return opval{true, false, nodes[0].V}
}

// NumValue returns the numeric value of a JSON number (float64 or json.Number).
func NumValue(v interface{}) (float64, bool) {
	switch t := v.(type) {
	case float64:
		return t, true
	case json.Number:
		f, _ := t.Float64()
		return f, true
	}
	return 0, false
}

// litEqual: v (a document value or literal) equals the literal lit, type-strictly.
func litEqual(v interface{}, lit interface{}) bool {
	switch l := lit.(type) {
	case float64:
		f, ok := NumValue(v)
		return ok && f == l
	case string:
		s, ok := v.(string)
		return ok && s == l
	case bool:
		b, ok := v.(bool)
		return ok && b == l
	case nil:
		return v == nil
	}
	return false
}

func (e *evaluator) holds(q *gen.Query, member interface{}) bool {
	switch q.Kind {
	case gen.QOr:
		l := e.holds(q.L, member)
		r := e.holds(q.R, member)
		return l || r
	case gen.QAnd:
		l := e.holds(q.L, member)
		r := e.holds(q.R, member)
		return l && r
	case gen.QParen:
		return e.holds(q.L, member)
	case gen.QExists:
		found := len(e.operandNodes(q.P, member)) > 0
		return found != q.Not
	case gen.QRegex:
		nodes := e.operandNodes(q.P, member)
		if len(nodes) == 0 {
			return false
		}
		e.touch(nodes[0].V)
		s, ok := nodes[0].V.(string)
		if !ok {
			return false
		}
		re, err := regexp.Compile(q.Re)
		if err != nil {
			return false
		}
		return re.MatchString(s)
	case gen.QCmp:
		a := e.operandValue(q.A, member)
		b := e.operandValue(q.B, member)
		switch q.Op {
		case "==", "!=":
			eq := e.equal(a, b)
			if q.Op == "!=" {
				return !eq
			}
			return eq
		default:
			if !a.present || !b.present {
				return false
			}
			x, ok1 := NumValue(a.v)
			y, ok2 := NumValue(b.v)
			if !ok1 || !ok2 {
				return false
			}
			switch q.Op {
			case "<":
				return x < y
			case "<=":
				return x <= y
			case ">":
				return x > y
			case ">=":
				return x >= y
			}
		}
	}
	return false
}

func (e *evaluator) equal(a, b opval) bool {
	switch {
	case a.lit && b.lit:
		return litEqual(a.v, b.v)
	case b.lit:
		return a.present && litEqual(a.v, b.v)
	case a.lit:
		return b.present && litEqual(b.v, a.v)
	}
	if !a.present && !b.present {
		// declared-unspecified cell 1: both operands absent
		e.res.Unspecified = true
		return true
	}
	if !a.present || !b.present {
		return false
	}
	return reflect.DeepEqual(a.v, b.v)
}
