package spec

import "math"

// SliceIndices returns the indexes Python's slice(start, end, step).indices(n) iterates,
// written after CPython's PySlice_AdjustIndices (clamp first, then iterate). A nil bound is
// an omitted bound; step 0 selects nothing (Python raises; the library documents "nothing").
// All arithmetic is overflow-free for any int bounds.
func SliceIndices(start, end, step *int, n int) []int {
	st := 1
	if step != nil {
		st = *step
	}
	if st == 0 || n == 0 {
		return nil
	}
	var s, e int
	if st > 0 {
		s, e = 0, n
		if start != nil {
			s = clampPos(*start, n)
		}
		if end != nil {
			e = clampPos(*end, n)
		}
		if s >= e {
			return nil
		}
		cnt := (e-s-1)/minInt(st, n) + 1 // st > n behaves like n: at most one element
		if st > n {
			cnt = 1
		}
		out := make([]int, 0, cnt)
		for k, i := 0, s; k < cnt; k++ {
			out = append(out, i)
			if k+1 < cnt {
				i += st
			}
		}
		return out
	}
	// negative step
	s, e = n-1, -1
	if start != nil {
		s = clampNeg(*start, n)
	}
	if end != nil {
		e = clampNeg(*end, n)
	}
	if s <= e {
		return nil
	}
	var mag int // |st| saturated at n (n >= 1)
	if st == math.MinInt || -st > n {
		mag = n
	} else {
		mag = -st
	}
	cnt := (s-e-1)/mag + 1
	out := make([]int, 0, cnt)
	for k, i := 0, s; k < cnt; k++ {
		out = append(out, i)
		i -= mag
	}
	return out
}

func minInt(a, b int) int {
	if a < b {
		return a
	}
	return b
}

// clampPos: bound for a positive step, result in [0, n].
func clampPos(v, n int) int {
	if v < 0 {
		v += n // v < 0, n >= 0: no overflow
		if v < 0 {
			return 0
		}
		return v
	}
	if v > n {
		return n
	}
	return v
}

// clampNeg: bound for a negative step, result in [-1, n-1].
func clampNeg(v, n int) int {
	if v < 0 {
		v += n
		if v < 0 {
			return -1
		}
		return v
	}
	if v > n-1 {
		return n - 1
	}
	return v
}
