package spec

import (
	"crypto/sha256"
	"fmt"
	"math"
	"strings"
	"testing"
)

func optStr(p *int) string {
	if p == nil {
		return "None"
	}
	return fmt.Sprint(*p)
}

// TestSliceMatchesPython pins SliceIndices to CPython: the digest below was produced by
// python3 evaluating list(range(n))[slice(s,e,t)] for n in 0..6 and every s,e,t in
// {None} U [-7..7], then for s,e,t in {None, +-2^31, +-(2^63-1), -2^63, 0, +-1}
// (33775 lines "n|s|e|t|i,j,k"); step 0 is written as an empty selection.
func TestSliceMatchesPython(t *testing.T) {
	h := sha256.New()
	ip := func(v int) *int { return &v }
	var small []*int
	small = append(small, nil)
	for v := -7; v <= 7; v++ {
		small = append(small, ip(v))
	}
	big := []*int{nil, ip(1 << 31), ip(-(1 << 31)), ip(math.MaxInt64), ip(-math.MaxInt64), ip(math.MinInt64), ip(0), ip(1), ip(-1)}
	count := 0
	for _, vals := range [][]*int{small, big} {
		for n := 0; n <= 6; n++ {
			for _, s := range vals {
				for _, e := range vals {
					for _, st := range vals {
						idx := SliceIndices(s, e, st, n)
						parts := make([]string, len(idx))
						for i, v := range idx {
							parts[i] = fmt.Sprint(v)
						}
						fmt.Fprintf(h, "%d|%s|%s|%s|%s\n", n, optStr(s), optStr(e), optStr(st), strings.Join(parts, ","))
						count++
					}
				}
			}
		}
	}
	got := fmt.Sprintf("%x", h.Sum(nil))
	const want = "3f1813e9c0020e3457cc3143538f54ac97950f9ab61b1dbac9fee2ebbbc0b0e6"
	if count != 33775 || got != want {
		t.Fatalf("SliceIndices disagrees with CPython: %d lines, digest %s", count, got)
	}
}
