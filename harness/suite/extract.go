// Package suite extracts the repository's own table cases (path, input JSON, expected JSON or
// expected error, decode mode, registered function names) from test_jsonpath_test.go with
// go/parser, so that SPEC and PEGI can be validated against the pinned expectations
// (DESIGN.md §3.9). Cases it cannot interpret are counted, not guessed.
package suite

import (
	"fmt"
	"go/ast"
	"go/constant"
	"go/parser"
	"go/token"
	"strconv"
)

// ExpectedErr is a pinned error expectation.
type ExpectedErr struct {
	Type     string // ErrorMemberNotExist, ...
	Path     string // runtime errors: path= / function=
	Expected string
	Found    string
	FuncErr  string
	Position int
	Reason   string
	Near     string
	Arg      string // ErrorInvalidArgument.argument, ErrorFunctionNotFound.function, ErrorNotSupported.path
	Partial  bool   // some field could not be evaluated
}

// Case is one table case.
type Case struct {
	Line         int
	Path         string
	Input        string
	Expected     string
	HasExpected  bool
	Err          *ExpectedErr
	UseNumber    bool
	CustomDecode bool // unmarshalFunc other than the json.Number decoder
	Filters      []string
	Aggregates   []string
	Accessor     bool
	Validator    bool // custom resultValidator: expected values are not comparable
}

// Extract parses the suite file.
func Extract(file string) ([]Case, int, error) {
	fset := token.NewFileSet()
	f, err := parser.ParseFile(fset, file, nil, 0)
	if err != nil {
		return nil, 0, err
	}
	var cases []Case
	skipped := 0
	ast.Inspect(f, func(n ast.Node) bool {
		cl, ok := n.(*ast.CompositeLit)
		if !ok {
			return true
		}
		at, ok := cl.Type.(*ast.ArrayType)
		if !ok {
			return true
		}
		if id, ok := at.Elt.(*ast.Ident); !ok || id.Name != "TestCase" {
			return true
		}
		for _, el := range cl.Elts {
			tc, ok := el.(*ast.CompositeLit)
			if !ok {
				skipped++
				continue
			}
			c, ok := parseCase(fset, tc)
			if !ok {
				skipped++
				continue
			}
			cases = append(cases, c)
		}
		return true
	})
	return cases, skipped, nil
}

func evalString(e ast.Expr) (string, bool) {
	switch t := e.(type) {
	case *ast.BasicLit:
		if t.Kind != token.STRING {
			return "", false
		}
		s, err := strconv.Unquote(t.Value)
		return s, err == nil
	case *ast.BinaryExpr:
		if t.Op != token.ADD {
			return "", false
		}
		a, ok1 := evalString(t.X)
		b, ok2 := evalString(t.Y)
		return a + b, ok1 && ok2
	case *ast.ParenExpr:
		return evalString(t.X)
	}
	return "", false
}

func evalInt(e ast.Expr) (int, bool) {
	if bl, ok := e.(*ast.BasicLit); ok && bl.Kind == token.INT {
		v := constant.MakeFromLiteral(bl.Value, token.INT, 0)
		i, ok := constant.Int64Val(v)
		return int(i), ok
	}
	return 0, false
}

func parseCase(fset *token.FileSet, tc *ast.CompositeLit) (Case, bool) {
	c := Case{Line: fset.Position(tc.Pos()).Line}
	havePath := false
	for _, el := range tc.Elts {
		kv, ok := el.(*ast.KeyValueExpr)
		if !ok {
			return c, false
		}
		key, ok := kv.Key.(*ast.Ident)
		if !ok {
			return c, false
		}
		switch key.Name {
		case "jsonpath":
			s, ok := evalString(kv.Value)
			if !ok {
				return c, false
			}
			c.Path, havePath = s, true
		case "inputJSON":
			s, ok := evalString(kv.Value)
			if !ok {
				return c, false
			}
			c.Input = s
		case "expectedJSON":
			s, ok := evalString(kv.Value)
			if !ok {
				return c, false
			}
			c.Expected, c.HasExpected = s, true
		case "expectedErr":
			c.Err = parseErr(kv.Value)
		case "unmarshalFunc":
			if id, ok := kv.Value.(*ast.Ident); ok && id.Name == "useJSONNumberDecoderFunction" {
				c.UseNumber = true
			} else {
				c.CustomDecode = true
			}
		case "filters":
			c.Filters = mapKeys(kv.Value)
		case "aggregates":
			c.Aggregates = mapKeys(kv.Value)
		case "accessorMode":
			if id, ok := kv.Value.(*ast.Ident); ok && id.Name == "true" {
				c.Accessor = true
			}
		case "resultValidator":
			c.Validator = true
		}
	}
	return c, havePath
}

func mapKeys(e ast.Expr) []string {
	cl, ok := e.(*ast.CompositeLit)
	if !ok {
		return nil
	}
	var out []string
	for _, el := range cl.Elts {
		if kv, ok := el.(*ast.KeyValueExpr); ok {
			if s, ok := evalString(kv.Key); ok {
				out = append(out, s)
			}
		}
	}
	return out
}

func parseErr(e ast.Expr) *ExpectedErr {
	switch t := e.(type) {
	case *ast.CallExpr:
		fn, ok := t.Fun.(*ast.Ident)
		if !ok {
			return &ExpectedErr{Partial: true}
		}
		args := make([]string, len(t.Args))
		partial := false
		for i, a := range t.Args {
			s, ok := evalString(a)
			if !ok {
				partial = true
			}
			args[i] = s
		}
		switch fn.Name {
		case "createErrorMemberNotExist":
			return &ExpectedErr{Type: "ErrorMemberNotExist", Path: args[0], Partial: partial}
		case "createErrorTypeUnmatched":
			return &ExpectedErr{Type: "ErrorTypeUnmatched", Path: args[0], Expected: args[1], Found: args[2], Partial: partial}
		case "createErrorFunctionFailed":
			return &ExpectedErr{Type: "ErrorFunctionFailed", Path: args[0], FuncErr: args[1], Partial: partial}
		}
		return &ExpectedErr{Type: fn.Name, Partial: true}
	case *ast.CompositeLit:
		id, ok := t.Type.(*ast.Ident)
		if !ok {
			return &ExpectedErr{Partial: true}
		}
		ee := &ExpectedErr{Type: id.Name}
		for _, el := range t.Elts {
			kv, ok := el.(*ast.KeyValueExpr)
			if !ok {
				ee.Partial = true
				continue
			}
			k, _ := kv.Key.(*ast.Ident)
			if k == nil {
				ee.Partial = true
				continue
			}
			switch k.Name {
			case "position":
				v, ok := evalInt(kv.Value)
				if !ok {
					ee.Partial = true
				}
				ee.Position = v
			case "reason":
				ee.Reason, ok = evalString(kv.Value)
				if !ok {
					ee.Partial = true
				}
			case "near":
				ee.Near, ok = evalString(kv.Value)
				if !ok {
					ee.Partial = true
				}
			case "argument", "function", "path":
				ee.Arg, ok = evalString(kv.Value)
				if !ok {
					ee.Partial = true
				}
			default:
				// err: fmt.Errorf(...) etc. are not evaluated
			}
		}
		return ee
	}
	return &ExpectedErr{Partial: true}
}

// String renders a short description.
func (c Case) String() string {
	return fmt.Sprintf("line %d: %q on %s", c.Line, c.Path, c.Input)
}
