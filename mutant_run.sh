#!/bin/sh
# Development aid (DESIGN §3.9 sensitivity): apply a patch to /repo, run the quick checks of
# the given properties, and always restore /repo.   usage: mutant_run.sh <patch|revert:COMMIT> C01 C08 ...
set -u
patch="$1"; shift
cd /repo || exit 2
if [ -n "$(git status --porcelain)" ]; then echo "/repo is dirty"; exit 2; fi
case "$patch" in
  revert:*) git diff "${patch#revert:}~1" "${patch#revert:}" | git apply -R || exit 2 ;;
  *) git apply "$patch" || exit 2 ;;
esac
if ! go build ./... ; then echo "MUTANT DOES NOT COMPILE"; git checkout -- .; git clean -fdq; exit 2; fi
if [ "${SKIP_SUITE:-0}" != 1 ]; then
  if go test -vet=off -count=1 ./... >/dev/null 2>&1; then echo "suite: green"; else echo "suite: RED (mutant is caught by the existing tests)"; fi
fi
cd /verif
rm -rf /verif/.build/evidence.keep && cp -r /verif/evidence /verif/.build/evidence.keep
for p in "$@"; do
  ./bin/verifrun -property "$p" -tier quick ${SCALE:+-scale $SCALE} 2>&1 | grep -E "VIOLATION|KNOWN|INCONCLUSIVE|seed=" | cut -c1-300 | head -8
  echo "  -> $p exit=$?"
done
git -C /repo checkout -- . && git -C /repo clean -fdq
rm -rf /verif/evidence && mv /verif/.build/evidence.keep /verif/evidence
rm -f /verif/replays/C[0-9][0-9]-*.json
