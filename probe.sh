#!/bin/sh
# development aid: rebuild the probe against /repo's working tree and run it
export GOFLAGS=-mod=mod GOPROXY=off GOSUMDB=off GOTOOLCHAIN=local
(cd /verif/harness && go build -o ../bin/probe ./cmd/probe) && exec /verif/bin/probe "$@"
