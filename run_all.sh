#!/bin/sh
# Development aid: run every registered check of a tier on the current tree and validate the evidence files.
tier=${1:-quick}
cd /verif || exit 2
mkdir -p .build
rc=0
for p in C01 C02 C03 C04 C05 C06 C07 C08 C09 C10 C11 C12 C13 C14 C15 C16 C17 C18 C19 C20; do
  ./bin/verifrun -property $p -tier $tier > .build/last-$p.out 2>&1; e=$?
  tail -1 .build/last-$p.out
  if [ $e -ne 0 ]; then echo "  !! $p exit=$e"; grep -E "VIOLATION|INCONCLUSIVE|KNOWN" .build/last-$p.out | head -5; rc=1; fi
done
python3-vt - <<'PY'
import json, jsonschema, glob
s=json.load(open('/root/.vp/EVIDENCE.schema.json'))
for f in sorted(glob.glob('/verif/evidence/*.json')):
    try:
        jsonschema.validate(json.load(open(f)), s)
    except Exception as e:
        print("INVALID", f, str(e)[:200])
m=json.load(open('/verif/MANIFEST.json')); jsonschema.validate(m, json.load(open('/root/.vp/MANIFEST.schema.json')))
print("evidence + manifest validated:", len(glob.glob('/verif/evidence/*.json')), "files")
PY
exit $rc
