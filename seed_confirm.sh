#!/bin/sh
# Development aid: confirm a sub-agent's seeded change in its scratch worktree and keep it under /verif/seeded/.
#   seed_confirm.sh C04 A
set -u
id=$1; x=$2; wt=/tmp/${WT_PREFIX:-wt}-$id; src=$wt/_seed/$x
export GOFLAGS=-mod=mod GOPROXY=off GOSUMDB=off GOTOOLCHAIN=local
[ -f $src/patch.diff ] || { echo "no $src/patch.diff"; exit 2; }
cd $wt || exit 2
git checkout -q -- . ; git clean -fdq -e _seed; rm -f demo_test.go
name=$(grep -o 'func Test[A-Za-z0-9_]*' $src/demo_test.go | head -1 | sed 's/func //')
cp $src/demo_test.go ./demo_test.go
if go test -vet=off -count=1 -run "^$name\$" . >/dev/null 2>&1; then echo "demo passes WITHOUT patch: ok"; else echo "demo FAILS without patch: REJECT"; rm -f demo_test.go; exit 1; fi
git apply $src/patch.diff || { echo "patch does not apply"; rm -f demo_test.go; exit 1; }
if go test -vet=off -count=1 -run "^$name\$" . >/dev/null 2>&1; then echo "demo PASSES with patch: REJECT"; git checkout -q -- .; rm -f demo_test.go; exit 1; else echo "demo fails WITH patch: ok"; fi
rm -f demo_test.go
if go build ./... && go test -vet=off -count=1 ./... >/dev/null 2>&1; then echo "suite green with patch: ok"; else echo "suite RED with patch: REJECT"; git checkout -q -- .; git clean -fdq -e _seed; exit 1; fi
git checkout -q -- .; git clean -fdq -e _seed
mkdir -p /verif/seeded/$id-$x && cp $src/patch.diff $src/demo_test.go $src/meta.json /verif/seeded/$id-$x/ && echo "kept /verif/seeded/$id-$x (demo test $name)"
