#!/bin/sh
# Development aid: confirm a seeded change, then run the owning property's quick check (plus any extra
# properties given) against it and log the outcome in /verif/seeded/results.tsv.
#   seed_eval.sh C04 A [C01 ...]
id=$1; x=$2; shift 2
cd /verif
if [ ! -d seeded/$id-$x ]; then ./seed_confirm.sh $id $x || { echo "$id-$x	REJECTED	-	$(date -u +%FT%TZ)" >> seeded/results.tsv; exit 1; }; fi
for p in $id "$@"; do
  out=$(SKIP_SUITE=1 ./mutant_run.sh /verif/seeded/$id-$x/patch.diff $p 2>&1)
  v=$(echo "$out" | grep -c "^VIOLATION")
  inc=$(echo "$out" | grep -c "^INCONCLUSIVE")
  first=$(echo "$out" | grep -A1 "^VIOLATION" | sed -n 2p | cut -c1-200)
  if [ "$v" -gt 0 ]; then verdict=DETECTED; else verdict=MISSED; fi
  echo "$id-$x	$p	$verdict	violations=$v inconclusive=$inc	$first" | tee -a seeded/results.tsv
done
