import json, os, glob, subprocess, sys
rnd = sys.argv[1]            # e.g. w5
letters = sys.argv[2].split(',')   # e.g. I,J
props = {}
for l in open('/verif/properties.jsonl'):
    d = json.loads(l); props[d['id']] = d
for pid, d in props.items():
    wt = f'/tmp/{rnd}-{pid}'
    if not os.path.isdir(wt):
        subprocess.check_call(['git','-C','/repo','worktree','add','--detach',wt,'HEAD'], stdout=subprocess.DEVNULL, stderr=subprocess.DEVNULL)
    os.makedirs(wt+'/_seed', exist_ok=True)
    earlier = []
    for m in sorted(glob.glob(f'/verif/seeded/{pid}-*/meta.json')):
        j = json.load(open(m))
        s = j.get('summary','')[:420].replace('\n',' ')
        n = j.get('needs_to_manifest','')[:300].replace('\n',' ')
        earlier.append(f"- {s} … NEEDS: {n} …")
    L = ' and '.join(letters)
    task = f"""# Task

You are working in a scratch git worktree of the Go library AsaiYusuke/jsonpath (a JSONPath query
library: a PEG-generated parser builds a chain of syntax nodes that evaluate paths, slices, filters
and custom functions over decoded JSON). The worktree is `{wt}`. Do ALL work only inside that
directory. Never read, write or run anything under /repo or /verif.

Environment: there is no network. In every shell call first run
`export GOFLAGS=-mod=mod GOPROXY=off GOSUMDB=off GOTOOLCHAIN=local`.
The test suite is `cd {wt} && go test -vet=off -count=1 ./...` (about 2 s, 1274 tests; it passes on the clean tree).

## The property

The library is supposed to satisfy this semantic property (JSON record):

```json
{json.dumps(d, indent=1, ensure_ascii=False)}
```

## What to produce

Produce {len(letters)} independent changes (called {L}) to the library's non-test source. Each change must

1. compile, and the existing test suite, unedited, must still pass completely with it;
2. break the property above — i.e. there is a concrete use of the public API (Parse, Retrieve, Config,
   Accessor) whose observable behaviour contradicts the property statement with the change and agrees with it without;
3. be realistic: something a maintainer could plausibly write — a refactoring, an optimisation (caching,
   pooling, fast path, early exit), a feature, a clean-up or a "bug fix" that is slightly wrong. No sabotage
   markers, no magic constants chosen only to hide the change, no special-casing of a literal input string;
4. need something SPECIFIC to manifest: a particular interleaving, a crash or fault at a particular point, a multi-step
   sequence of operations, an unusual input or combination of language features, a particular way the caller builds or holds
   its values (documents, Configs, parsed functions, results), or two cooperating sites that each look fine alone.
   It must NOT be something ordinary use would expose at once, and it must not be detectable by merely running a
   handful of simple paths on simple documents.

Prefer mechanisms in parts of the code or of the API surface that are easy to overlook. Think about: rarely combined
features, boundary sizes (buffer growth thresholds, pool reuse), state that lives longer than one call, error paths,
the order in which things are set up, values that encoding/json never produces, exotic-but-legal path spellings.

Earlier rounds already produced the following changes for this property. Yours must use DIFFERENT mechanisms AND
need DIFFERENT things to manifest (do not merely move the same idea to another node type):

{chr(10).join(earlier)}

## Deliverables

For each change X in {{{', '.join(letters)}}} create the directory `{wt}/_seed/X/` containing exactly:

* `patch.diff` — the output of `git diff` (plus any new non-test source file, use `git add -N` first so that new files show up) against the clean HEAD.
  It must apply with `git apply` on the clean tree. Library source only; do not edit or add `_test.go` files in the patch.
* `demo_test.go` — a Go test file (package `jsonpath_test` importing `github.com/AsaiYusuke/jsonpath`, or package `jsonpath`)
  with exactly ONE test function whose name starts with `TestSeed{pid}X` (e.g. `TestSeed{pid}{letters[0]}_Something`). When copied to the worktree root
  it must PASS on the clean tree and FAIL with the change applied. Make it as deterministic as you can; if it depends on
  goroutine scheduling, repeat enough that it fails in well over 99 % of runs with the change and never without.
* `meta.json` — `{{"property": "{pid}", "summary": "<what the change is, which files, and why it breaks the property>", "needs_to_manifest": "<the specific thing needed>", "verified": "<the commands you ran and what they printed>"}}`

The changes are independent of each other: each is relative to the clean HEAD.

## Procedure you must follow for each change

1. clean tree + demo_test.go at the root: `go test -vet=off -count=1 -run '^TestSeed...$' .` passes;
2. apply the change; remove demo_test.go from the root; the full suite passes (run it 3 times; with `-race` once if the change involves concurrency);
3. with the change and demo_test.go at the root the demo test fails;
4. save patch.diff, demo_test.go, meta.json under `_seed/X/`; then restore the tree:
   `git checkout -- . && git clean -fdq -e _seed` and check that `git apply --check _seed/X/patch.diff` succeeds.

At the end the worktree must be clean apart from `_seed/`. Your final answer: for each change two sentences — what it is, and what is needed to see it.
"""
    open(wt+'/_seed/TASK.md','w').write(task)
print('ok')
