#!/bin/sh
# Development aid: how stable is the detection of the seeded changes across VERIF_SEED values?
# Runs inside a `vp run --with-repo` snapshot (or anywhere): builds the driver in the current
# /verif checkout, copies the library to a scratch directory, and for every seeded/<id>/patch.diff
# applies it THERE (never in /repo), runs the owning property's quick check against the copy
# (VERIF_REPO_DIR) at the given seed and logs the verdict.
#   usage: sweep_seeds.sh <VERIF_SEED> [glob of seeded dirs, default 'C*'] [scale]
set -u
seed=${1:-2}; pat=${2:-C*}; scale=${3:-1}
here=$(pwd)
export GOFLAGS=-mod=mod GOPROXY=off GOSUMDB=off GOTOOLCHAIN=local
export VERIF_DIR=$here
(cd harness && go build -o ../bin/verifrun ./cmd/verifrun) || exit 2
src=${VP_RUN_REPO:-/repo}
scratch=$(mktemp -d /tmp/sweep-repo-XXXXXX)
trap 'rm -rf "$scratch"' EXIT INT TERM
git -C "$src" archive HEAD | tar -x -C "$scratch"
(cd "$scratch" && git init -q && git add -A && git -c user.email=x@x -c user.name=x commit -qm base)
out=$here/sweep-$seed.tsv
: > "$out"
for d in $here/seeded/$pat/; do
  id=$(basename "$d"); p=${id%%-*}
  [ -f "$d/patch.diff" ] || continue
  (cd "$scratch" && git checkout -q -- . && git clean -fdq && git apply "$d/patch.diff") || { echo "$id	$p	NOAPPLY" >> "$out"; continue; }
  t0=$(date +%s)
  log=$(VERIF_SEED=$seed VERIF_REPO_DIR=$scratch ./bin/verifrun -property "$p" -tier quick -scale "$scale" 2>&1); rc=$?
  t1=$(date +%s)
  v=$(echo "$log" | grep -c "^VIOLATION")
  echo "$id	$p	rc=$rc	violations=$v	$((t1-t0))s" | tee -a "$out"
  rm -f $here/replays/C[0-9][0-9]-*.json
done
# the unchanged copy must stay silent
(cd "$scratch" && git checkout -q -- . && git clean -fdq)
echo "done: $(grep -c 'rc=1' "$out") detected, $(grep -c 'rc=0' "$out") missed, $(grep -c 'rc=2' "$out") inconclusive of $(wc -l < "$out")"
