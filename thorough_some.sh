#!/bin/sh
# Development aid: thorough tier of the given properties inside a vp-run snapshot (VERIF_DIR = the snapshot).
export GOFLAGS=-mod=mod GOPROXY=off GOSUMDB=off GOTOOLCHAIN=local
export VERIF_DIR=$(pwd)
(cd harness && go build -o ../bin/verifrun ./cmd/verifrun) || exit 2
for p in "$@"; do
  t0=$(date +%s)
  { ./bin/verifrun -property $p -tier thorough -scale ${SCALE:-1} 2>&1; echo "  NOTE $p exit=$?"; } | grep -E "VIOLATION|INCONCLUSIVE|NOTE|seed=" | cut -c1-400
  echo "  $p thorough took $(( $(date +%s) - t0 ))s"
done
